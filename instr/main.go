// Command instr rewrites the working tree of /repo into a scratch directory and writes an
// overlay.json for `go build -overlay`, so that every source of nondeterminism klog has goes
// through the simulator runtime package github.com/jotaen/klog/klog/verifsim.
//
// Rules are keyed on resolved types.Objects, never on spelling. See DESIGN.md §2.2.
//
// usage: instr -repo /repo -simrt /verif/simrt -out <scratch dir>
// exit 0: ok (overlay.json + report.json written); exit 2: the tree does not load/type-check.
package main

import (
	"bytes"
	"encoding/json"
	"flag"
	"fmt"
	"go/ast"
	"go/printer"
	"go/token"
	"go/types"
	"os"
	"path/filepath"
	"sort"
	"strings"

	"golang.org/x/tools/go/ast/astutil"
	"golang.org/x/tools/go/packages"
)

const simPath = "github.com/jotaen/klog/klog/verifsim"
const simName = "verifsim"

type report struct {
	Sites        map[string]int      `json:"sites"`
	Files        []string            `json:"files"`
	Uncontrolled map[string][]string `json:"uncontrolled"`
	Packages     int                 `json:"packages"`
}

func main() {
	repo := flag.String("repo", "/repo", "repository root")
	simrt := flag.String("simrt", "/verif/simrt", "simulator runtime sources")
	out := flag.String("out", "", "scratch output directory")
	flag.Parse()
	if *out == "" {
		fmt.Fprintln(os.Stderr, "instr: -out required")
		os.Exit(2)
	}
	if err := run(*repo, *simrt, *out); err != nil {
		fmt.Fprintln(os.Stderr, "instr:", err)
		os.Exit(2)
	}
}

func run(repo, simrt, out string) error {
	cfg := &packages.Config{
		Mode: packages.NeedName | packages.NeedFiles | packages.NeedCompiledGoFiles | packages.NeedSyntax |
			packages.NeedTypes | packages.NeedTypesInfo | packages.NeedImports,
		Dir:   repo,
		Env:   os.Environ(),
		Tests: false,
	}
	pkgs, err := packages.Load(cfg, "./...")
	if err != nil {
		return err
	}
	var loadErrs []string
	for _, p := range pkgs {
		for _, e := range p.Errors {
			loadErrs = append(loadErrs, e.Error())
		}
	}
	if len(loadErrs) > 0 {
		return fmt.Errorf("tree does not type-check:\n%s", strings.Join(loadErrs, "\n"))
	}
	rep := report{Sites: map[string]int{}, Uncontrolled: map[string][]string{}, Packages: len(pkgs)}
	overlay := map[string]string{}
	if err := os.MkdirAll(filepath.Join(out, "src"), 0o755); err != nil {
		return err
	}
	n := 0
	for _, p := range pkgs {
		if p.PkgPath == simPath {
			continue
		}
		for i, f := range p.Syntax {
			path := p.CompiledGoFiles[i]
			if !strings.HasPrefix(path, repo+string(filepath.Separator)) {
				continue
			}
			rw := &rewriter{pkg: p, file: f, fset: p.Fset, rep: &rep, path: path}
			if rw.rewrite() {
				var buf bytes.Buffer
				if err := (&printer.Config{Mode: printer.UseSpaces | printer.TabIndent, Tabwidth: 8}).Fprint(&buf, p.Fset, f); err != nil {
					return err
				}
				n++
				dst := filepath.Join(out, "src", fmt.Sprintf("%03d_%s", n, filepath.Base(path)))
				if err := os.WriteFile(dst, buf.Bytes(), 0o644); err != nil {
					return err
				}
				overlay[path] = dst
				rel, _ := filepath.Rel(repo, path)
				rep.Files = append(rep.Files, rel)
			}
		}
	}
	// add the runtime package at a path that does not exist on disk
	entries, err := os.ReadDir(simrt)
	if err != nil {
		return err
	}
	for _, e := range entries {
		if !strings.HasSuffix(e.Name(), ".go") || strings.HasSuffix(e.Name(), "_test.go") {
			continue
		}
		src := filepath.Join(simrt, e.Name())
		dst := filepath.Join(out, "src", "simrt_"+e.Name())
		b, err := os.ReadFile(src)
		if err != nil {
			return err
		}
		if err := os.WriteFile(dst, b, 0o644); err != nil {
			return err
		}
		overlay[filepath.Join(repo, "klog", "verifsim", e.Name())] = dst
	}
	sort.Strings(rep.Files)
	ob, _ := json.MarshalIndent(map[string]any{"Replace": overlay}, "", " ")
	if err := os.WriteFile(filepath.Join(out, "overlay.json"), ob, 0o644); err != nil {
		return err
	}
	rb, _ := json.MarshalIndent(rep, "", " ")
	return os.WriteFile(filepath.Join(out, "report.json"), rb, 0o644)
}

type rewriter struct {
	pkg     *packages.Package
	file    *ast.File
	fset    *token.FileSet
	rep     *report
	path    string
	changed bool
}

func (r *rewriter) count(rule string) {
	r.rep.Sites[rule]++
	r.changed = true
}

func (r *rewriter) uncontrolled(what string, pos token.Pos) {
	p := r.fset.Position(pos)
	r.rep.Uncontrolled[what] = append(r.rep.Uncontrolled[what], fmt.Sprintf("%s:%d", filepath.Base(p.Filename), p.Line))
}

func sim(name string) ast.Expr {
	return &ast.SelectorExpr{X: ast.NewIdent(simName), Sel: ast.NewIdent(name)}
}

func call(name string, args ...ast.Expr) *ast.CallExpr {
	return &ast.CallExpr{Fun: sim(name), Args: args}
}

func str(s string) ast.Expr {
	return &ast.BasicLit{Kind: token.STRING, Value: fmt.Sprintf("%q", s)}
}

// pkgFunc resolves an expression to (package path, name) if it denotes a package-level object.
func (r *rewriter) pkgFunc(e ast.Expr) (string, string, bool) {
	var id *ast.Ident
	switch x := e.(type) {
	case *ast.SelectorExpr:
		id = x.Sel
	case *ast.Ident:
		id = x
	default:
		return "", "", false
	}
	obj := r.pkg.TypesInfo.Uses[id]
	if obj == nil || obj.Pkg() == nil {
		return "", "", false
	}
	if obj.Parent() != obj.Pkg().Scope() {
		return "", "", false
	}
	return obj.Pkg().Path(), obj.Name(), true
}

// method resolves a call x.M() to (receiver named type's package path, type name, method name).
func (r *rewriter) method(c *ast.CallExpr) (pkg, typ, meth string, recv ast.Expr, isPtr bool, ok bool) {
	sel, isSel := c.Fun.(*ast.SelectorExpr)
	if !isSel {
		return
	}
	s := r.pkg.TypesInfo.Selections[sel]
	if s == nil || s.Kind() != types.MethodVal {
		return
	}
	fn, isFn := s.Obj().(*types.Func)
	if !isFn {
		return
	}
	sig := fn.Type().(*types.Signature)
	if sig.Recv() == nil {
		return
	}
	rt := sig.Recv().Type()
	if p, isP := rt.(*types.Pointer); isP {
		rt = p.Elem()
	}
	named, isNamed := rt.(*types.Named)
	if !isNamed || named.Obj().Pkg() == nil {
		return
	}
	xt := r.pkg.TypesInfo.TypeOf(sel.X)
	_, xIsPtr := xt.Underlying().(*types.Pointer)
	return named.Obj().Pkg().Path(), named.Obj().Name(), fn.Name(), sel.X, xIsPtr, true
}

// wrapFileArgs (R7b): a *os.File handed to a parameter of an interface type that can write (bufio.NewWriter(f),
// io.WriteString(f, s), fmt.Fprint(f, ...), io.Copy(f, r)) is wrapped, so that writes made on klog's behalf inside
// the standard library pass the same seam (events, faults) as writes klog makes itself.
func (r *rewriter) wrapFileArgs(c *ast.CallExpr) {
	info := r.pkg.TypesInfo
	sig, ok := info.TypeOf(c.Fun).(*types.Signature)
	if !ok || sig == nil {
		return
	}
	shimMethods := map[string]bool{"Write": true, "WriteString": true, "Close": true, "Read": true, "Sync": true}
	for i, arg := range c.Args {
		at := info.TypeOf(arg)
		if at == nil {
			continue
		}
		ptr, isPtr := at.(*types.Pointer)
		if !isPtr {
			continue
		}
		named, isNamed := ptr.Elem().(*types.Named)
		if !isNamed || named.Obj().Pkg() == nil || named.Obj().Pkg().Path() != "os" || named.Obj().Name() != "File" {
			continue
		}
		if sel, isSel := arg.(*ast.SelectorExpr); isSel {
			if id, isID := sel.X.(*ast.Ident); isID && id.Name == "os" {
				continue // os.Stdout, os.Stderr, os.Stdin: not part of the simulated disk
			}
		}
		var pt types.Type
		switch {
		case sig.Variadic() && i >= sig.Params().Len()-1:
			pt = sig.Params().At(sig.Params().Len() - 1).Type()
			if sl, isSl := pt.(*types.Slice); isSl && c.Ellipsis == token.NoPos {
				pt = sl.Elem()
			}
		case i < sig.Params().Len():
			pt = sig.Params().At(i).Type()
		}
		if pt == nil {
			continue
		}
		iface, isIface := pt.Underlying().(*types.Interface)
		if !isIface || iface.NumMethods() == 0 {
			continue
		}
		canWrite, fits := false, true
		for m := 0; m < iface.NumMethods(); m++ {
			name := iface.Method(m).Name()
			if !shimMethods[name] {
				fits = false
			}
			if name == "Write" {
				canWrite = true
			}
		}
		if !canWrite {
			continue
		}
		if !fits {
			r.uncontrolled("file_as_interface_not_wrapped", arg.Pos())
			continue
		}
		c.Args[i] = call("FileAsWriter", arg)
		r.count("R7b_file_as_writer")
	}
}

var osFuncs = map[string]string{
	"ReadFile":   "FSReadFile",
	"WriteFile":  "FSWriteFile",
	"Stat":       "FSStat",
	"Create":     "FSCreate",
	"MkdirAll":   "FSMkdirAll",
	"OpenFile":   "FSOpenFile",
	"Open":       "FSOpen",
	"CreateTemp": "FSCreateTemp",
	"Rename":     "FSRename",
	"Remove":     "FSRemove",
	"Exit":       "Exit",
}

// methods of *os.File that are redirected (hand-written write paths)
var fileMethods = map[string]string{
	"Write":       "FileWrite",
	"WriteString": "FileWriteString",
	"Sync":        "FileSync",
	"Close":       "FileClose",
	"Truncate":    "FileTruncate",
}

var fmtFuncs = map[string]string{
	"Print":   "Print",
	"Println": "Println",
	"Printf":  "Printf",
}

func isMap(t types.Type) bool {
	if t == nil {
		return false
	}
	switch u := t.Underlying().(type) {
	case *types.Map:
		return true
	case *types.Interface:
		// type parameter constraint: all terms maps?
		if tp, ok := t.(*types.TypeParam); ok {
			_ = tp
			all := true
			any := false
			for i := 0; i < u.NumEmbeddeds(); i++ {
				if un, ok := u.EmbeddedType(i).(*types.Union); ok {
					for j := 0; j < un.Len(); j++ {
						any = true
						if _, ok := un.Term(j).Type().Underlying().(*types.Map); !ok {
							all = false
						}
					}
				}
			}
			return any && all
		}
	}
	return false
}

func (r *rewriter) rewrite() bool {
	info := r.pkg.TypesInfo

	// pass 1: expression-level replacements (R1 range expr, R4, R5, R6, R7)
	astutil.Apply(r.file, func(c *astutil.Cursor) bool {
		switch n := c.Node().(type) {
		case *ast.RangeStmt:
			if isMap(info.TypeOf(n.X)) {
				n.X = call("MapIter", n.X)
				r.count("R1_map_range")
			}
		case *ast.CallExpr:
			if p, typ, meth, recv, isPtr, ok := r.method(n); ok && p == "os" && typ == "File" && fileMethods[meth] != "" && isPtr {
				n.Fun = sim(fileMethods[meth])
				n.Args = append([]ast.Expr{recv}, n.Args...)
				r.count("R7_file_method")
			} else {
				r.wrapFileArgs(n)
			}
		case *ast.SelectorExpr:
			if p, name, ok := r.pkgFunc(n); ok {
				switch {
				case p == "time" && name == "Now":
					c.Replace(sim("Now"))
					r.count("R4_time_now")
				case p == "time" && (name == "NewTicker" || name == "NewTimer" || name == "AfterFunc" || name == "After" || name == "Tick"):
					// timers are registered so that they can be stopped when the simulated process ends
					c.Replace(sim(name))
					r.count("R8_timer")
				case p == "os/signal" && name == "Notify":
					c.Replace(sim("SignalNotify"))
					r.count("R5_signal_notify")
				case p == "os" && osFuncs[name] != "":
					c.Replace(sim(osFuncs[name]))
					if name == "Exit" {
						r.count("R5_os_exit")
					} else {
						r.count("R7_fs")
					}
				case p == "fmt" && fmtFuncs[name] != "":
					c.Replace(sim(fmtFuncs[name]))
					r.count("R6_stdout")
				case p == "os" && (name == "Link" || name == "Symlink" || name == "RemoveAll" || name == "Mkdir" || name == "Chmod" || name == "Truncate"):
					r.uncontrolled("fs_call_not_intercepted:"+name, n.Pos())
				}
			}
		}
		return true
	}, nil)

	// pass 2: statement-level (R2 go, R3 yields)
	astutil.Apply(r.file, func(c *astutil.Cursor) bool {
		switch n := c.Node().(type) {
		case *ast.GoStmt:
			lit, ok := n.Call.Fun.(*ast.FuncLit)
			if !ok {
				r.uncontrolled("go_named_function", n.Pos())
				return true
			}
			if c.Index() < 0 {
				r.uncontrolled("go_stmt_not_in_list", n.Pos())
				return true
			}
			idName := fmt.Sprintf("verifsimID%d", r.rep.Sites["R2_go"])
			id := ast.NewIdent(idName)
			pre := []ast.Stmt{
				&ast.DeferStmt{Call: call("GoEnd", ast.NewIdent(idName))},
				&ast.ExprStmt{X: call("GoStart", ast.NewIdent(idName))},
			}
			lit.Body.List = append(pre, lit.Body.List...)
			c.InsertBefore(&ast.AssignStmt{Lhs: []ast.Expr{id}, Tok: token.DEFINE, Rhs: []ast.Expr{call("GoSpawn")}})
			r.count("R2_go")
		case *ast.SendStmt:
			if c.Index() >= 0 {
				if _, inComm := c.Parent().(*ast.CommClause); !inComm {
					c.InsertBefore(&ast.ExprStmt{X: call("Yield", str("send"))})
					r.count("R3_yield_send")
				}
			} else {
				r.uncontrolled("send_not_in_list", n.Pos())
			}
		case *ast.SelectStmt:
			if c.Index() >= 0 {
				c.InsertBefore(&ast.ExprStmt{X: call("Yield", str("select"))})
				r.count("R3_yield_select")
			}
			r.uncontrolled("select", n.Pos())
		case *ast.ExprStmt:
			ce, ok := n.X.(*ast.CallExpr)
			if !ok {
				return true
			}
			if id, ok := ce.Fun.(*ast.Ident); ok && id.Name == "close" {
				if _, isBuiltin := info.Uses[id].(*types.Builtin); isBuiltin && c.Index() >= 0 {
					c.InsertBefore(&ast.ExprStmt{X: call("Yield", str("close"))})
					r.count("R3_yield_close")
				}
				return true
			}
			if p, typ, meth, recv, isPtr, ok := r.method(ce); ok && p == "sync" {
				switch {
				case (typ == "Mutex" || typ == "RWMutex") && (meth == "Lock" || meth == "RLock"):
					arg := recv
					if !isPtr {
						arg = &ast.UnaryExpr{Op: token.AND, X: recv}
					}
					n.X = call(meth, arg)
					r.count("R3_lock")
				case (typ == "Mutex" || typ == "RWMutex") && (meth == "Unlock" || meth == "RUnlock") && c.Index() >= 0:
					// a release: let the scheduler run somebody else right after it
					c.InsertAfter(&ast.ExprStmt{X: call("Yield", str("unlock"))})
					r.count("R3_yield_unlock")
				case typ == "Cond":
					r.uncontrolled("sync.Cond."+meth, n.Pos())
				case typ == "WaitGroup" && meth == "Done" && c.Index() >= 0:
					c.InsertBefore(&ast.ExprStmt{X: call("Yield", str("wgdone"))})
					r.count("R3_yield_wgdone")
				}
			}
			if p, name, ok := r.pkgFunc(ce.Fun); ok && p == "sync/atomic" {
				if c.Index() >= 0 {
					c.InsertBefore(&ast.ExprStmt{X: call("Yield", str("atomic"))})
					r.count("R3_yield_atomic")
				}
				_ = name
			}
		}
		return true
	}, nil)

	if !r.changed {
		return false
	}
	// Comments would float to wrong places after the rewrite; keep only compiler directives.
	var keep []*ast.CommentGroup
	for _, cg := range r.file.Comments {
		for _, c := range cg.List {
			if strings.HasPrefix(c.Text, "//go:") || strings.HasPrefix(c.Text, "// +build") || strings.HasPrefix(c.Text, "//line") {
				keep = append(keep, cg)
				break
			}
		}
	}
	r.file.Comments = keep
	astutil.AddNamedImport(r.fset, r.file, simName, simPath)
	// drop imports that became unused
	for _, imp := range r.file.Imports {
		p := strings.Trim(imp.Path.Value, `"`)
		if p == simPath {
			continue
		}
		if imp.Name != nil && (imp.Name.Name == "_" || imp.Name.Name == ".") {
			continue
		}
		if !usesImport(r.file, imp, r.pkg) {
			name := ""
			if imp.Name != nil {
				name = imp.Name.Name
			}
			astutil.DeleteNamedImport(r.fset, r.file, name, p)
		}
	}
	return true
}

// usesImport reports whether the (possibly rewritten) file still refers to the import.
func usesImport(f *ast.File, imp *ast.ImportSpec, pkg *packages.Package) bool {
	var local string
	if imp.Name != nil {
		local = imp.Name.Name
	} else {
		p := strings.Trim(imp.Path.Value, `"`)
		local = filepath.Base(p)
		for _, ip := range pkg.Types.Imports() {
			if ip.Path() == p {
				local = ip.Name()
			}
		}
	}
	used := false
	ast.Inspect(f, func(n ast.Node) bool {
		if sel, ok := n.(*ast.SelectorExpr); ok {
			if id, ok := sel.X.(*ast.Ident); ok && id.Name == local {
				// make sure it is the package name and not a shadowing variable
				if o := pkg.TypesInfo.Uses[id]; o != nil {
					if _, isPkg := o.(*types.PkgName); isPkg {
						used = true
					}
				}
			}
		}
		return !used
	})
	return used
}
