#!/usr/bin/env python3
# Creates the deliberate breakages of DESIGN §7.2 as patch files (against /repo HEAD) in a scratch worktree.
import subprocess, sys, os
WT = sys.argv[1]
OUT = sys.argv[2]
def sh(*a): return subprocess.run(a, cwd=WT, check=True, capture_output=True, text=True).stdout
def edit(path, old, new, count=1):
    p = os.path.join(WT, path); s = open(p).read()
    assert old in s, (path, old)
    open(p, 'w').write(s.replace(old, new, count))
M = {}
def mutant(name, prop, kind, *edits):
    sh('git', 'checkout', '--', '.')
    for e in edits: edit(*e)
    d = sh('git', 'diff')
    open(os.path.join(OUT, name + '.diff'), 'w').write(d)
    M[name] = (prop, kind)
    sh('git', 'checkout', '--', '.')

mutant('m01_arrival_order', 'C07', 'break',
  ('klog/parser/engine/parallel.go', 'allResults := make([]batchResult[T], len(batches))\n\tfor result := range resultChannel {\n\t\tallResults[result.index] = result\n\t}',
   'var allResults []batchResult[T]\n\tfor result := range resultChannel {\n\t\tallResults = append(allResults, result)\n\t}'))
mutant('m02_done_before_send', 'C07', 'break',
  ('klog/parser/engine/parallel.go', '\t\t\tdefer wg.Done()\n\t\t\tresult := work(batchIndex, batchText)\n\t\t\tresultChannel <- result',
   '\t\t\tresult := work(batchIndex, batchText)\n\t\t\twg.Done()\n\t\t\tresultChannel <- result'))
mutant('m03_no_safeguard_reparse', 'C05', 'break',
  ('klog/parser/reconciling/reconciler.go', 'if errs != nil {\n\t\treturn nil, errors.New("This operation wouldn’t result in a valid record")\n\t}',
   'if errs != nil && len(newRecords) > 0 {\n\t\treturn nil, errors.New("This operation wouldn’t result in a valid record")\n\t}\n\tif errs != nil {\n\t\treturn &Result{Record: r.Record, AllRecords: nil, AllSerialised: text}, nil\n\t}'))
mutant('m04_write_error_ignored', 'C05', 'break',
  ('klog/app/context.go', '\twErr := WriteToFile(target, result.AllSerialised)\n\tif wErr != nil {\n\t\treturn nil, wErr\n\t}', '\t_ = WriteToFile(target, result.AllSerialised)'))
mutant('m05_countlines_off', 'C03', 'break',
  ('klog/parser/reconciling/reconciler.go', '\t\tresult += len(e.Summary())\n', '\t\tif n := len(e.Summary()); n > 2 {\n\t\t\tresult += n - 1\n\t\t} else {\n\t\t\tresult += n\n\t\t}\n'))
mutant('m06_lf_on_insert', 'C11', 'break',
  ('klog/parser/reconciling/reconciler.go', 'line += texts[offset].text + r.style.lineEnding.Get()', 'line += texts[offset].text + "\\n"'))
mutant('m07_swap_shift', 'C17', 'break',
  ('klog/app/cli/util/args.go', 'shiftedTime, sErr := time.Plus(klog.NewDuration(24, 0))\n\t\tif sErr != nil {\n\t\t\treturn nil, newUnrepresentableTimeError()\n\t\t}\n\t\treturn shiftedTime, nil\n\t} else if today.PlusDays(1)',
   'shiftedTime, sErr := time.Plus(klog.NewDuration(-24, 0))\n\t\tif sErr != nil {\n\t\t\treturn nil, newUnrepresentableTimeError()\n\t\t}\n\t\treturn shiftedTime, nil\n\t} else if today.PlusDays(1)'))
mutant('m08_round_ties_down', 'C17', 'break',
  ('klog/service/rounding.go', 'if remainder >= (v/2 + v%2) {', 'if remainder > (v/2 + v%2) || (v%2 == 1 && remainder == v/2+1) {'))
mutant('m09_unset_clears_more', 'C19', 'break',
  ('klog/app/bookmark.go', '\tdelete(bc.bookmarks, n)\n\treturn true', '\tdelete(bc.bookmarks, n)\n\tif n.Value() != BOOKMARK_DEFAULT_NAME {\n\t\tdelete(bc.bookmarks, Name(BOOKMARK_DEFAULT_NAME))\n\t}\n\treturn true'))
mutant('m10_list_unsorted', 'C19', 'break',
  ('klog/app/bookmark.go', '\tsort.Slice(sortedBookmarks, func(i, j int) bool {\n\t\treturn sortedBookmarks[i].Name() < sortedBookmarks[j].Name()\n\t})',
   '\tsort.Slice(sortedBookmarks, func(i, j int) bool {\n\t\treturn len(sortedBookmarks[i].Name()) < len(sortedBookmarks[j].Name())\n\t})'))
mutant('m11_set_keeps_old', 'C19', 'break',
  ('klog/app/bookmark.go', 'func (bc *bookmarksCollection) Set(b Bookmark) {\n\tbc.bookmarks[b.Name()] = b', 'func (bc *bookmarksCollection) Set(b Bookmark) {\n\tif old := bc.bookmarks[b.Name()]; old != nil && !b.IsDefault() {\n\t\treturn\n\t}\n\tbc.bookmarks[b.Name()] = b'))
mutant('m12_switch_partial_write', 'C05', 'break',
  ('klog/app/context.go', '\tfor _, r := range reconcile {\n\t\terr := r(reconciler)\n\t\tif err != nil {', '\tfor i, r := range reconcile {\n\t\terr := r(reconciler)\n\t\tif err != nil && i > 0 {\n\t\t\tbreak\n\t\t}\n\t\tif err != nil {'))
mutant('m13_stop_summary_wrong_line', 'C04', 'break',
  ('klog/parser/reconciling/reconciler.go', 'lineIndexOfLastSummaryLine := entryLineIndex + countLines([]klog.Entry{r.Record.Entries()[entryIndex]}) - 1', 'lineIndexOfLastSummaryLine := entryLineIndex'))
mutant('m14_pause_drift', 'C04', 'break',
  ('klog/app/cli/pause.go', 'uncapturedIncrement := diffInMinutes(ctx.Now(), start) - minsCaptured', 'uncapturedIncrement := diffInMinutes(ctx.Now(), start) - minsCaptured\n\t\tif uncapturedIncrement > 90 {\n\t\t\tuncapturedIncrement = 90\n\t\t}'))
mutant('m15_new_record_position', 'C04', 'break',
  ('klog/parser/reconciling/creator.go', 'if len(rs)-1 == i || (atDate.IsAfterOrEqual(r.Date()) && !atDate.IsAfterOrEqual(rs[i+1].Date())) {', 'if len(rs)-1 == i || (atDate.IsAfterOrEqual(r.Date()) && !rs[i+1].Date().IsAfterOrEqual(atDate) == false && !atDate.IsAfterOrEqual(rs[i+1].Date())) || (i+1 < len(rs) && rs[i+1].Date().IsEqualTo(atDate) && atDate.IsAfterOrEqual(r.Date())) {'))
mutant('m16_atomic_write_rename_error_ignored', 'C04', 'break',
  ('klog/app/file.go', '\terr := os.WriteFile(target.Path(), []byte(contents), 0644)\n', '\ttmp := target.Path() + ".tmp~"\n\terr := os.WriteFile(tmp, []byte(contents), 0644)\n\tif err == nil {\n\t\t_ = os.Rename(tmp, target.Path())\n\t}\n'))
mutant('m17_manual_write_error_ignored', 'C05', 'break',
  ('klog/app/file.go', '\terr := os.WriteFile(target.Path(), []byte(contents), 0644)\n', '\tf, err := os.OpenFile(target.Path(), os.O_WRONLY|os.O_CREATE|os.O_TRUNC, 0644)\n\tif err == nil {\n\t\t_, _ = f.WriteString(contents)\n\t\terr = f.Close()\n\t}\n'))
# behaviour-preserving refactors: must stay green
mutant('r01_atomic_write', 'C05', 'refactor',
  ('klog/app/file.go', '\terr := os.WriteFile(target.Path(), []byte(contents), 0644)\n', '\ttmp := target.Path() + ".tmp~"\n\terr := os.WriteFile(tmp, []byte(contents), 0644)\n\tif err == nil {\n\t\terr = os.Rename(tmp, target.Path())\n\t}\n'))
mutant('r02_buffered_channel', 'C07', 'refactor',
  ('klog/parser/engine/parallel.go', 'resultChannel := make(chan batchResult[T])', 'resultChannel := make(chan batchResult[T], len(batches))'))
mutant('r03_sorted_tally', 'C11', 'refactor',
  ('klog/parser/reconciling/style.go', '\tfor _, value := range e.order {\n\t\tcount := e.votes[value]\n', '\tfor i := 0; i < len(e.order); i++ {\n\t\tvalue := e.order[i]\n\t\tcount := e.votes[value]\n'))
mutant('r04_manual_write', 'C05', 'refactor',
  ('klog/app/file.go', '\terr := os.WriteFile(target.Path(), []byte(contents), 0644)\n', '\tf, err := os.OpenFile(target.Path(), os.O_WRONLY|os.O_CREATE|os.O_TRUNC, 0644)\n\tif err == nil {\n\t\t_, err = f.WriteString(contents)\n\t\tif cErr := f.Close(); err == nil {\n\t\t\terr = cErr\n\t\t}\n\t}\n'))
mutant('r05_print_via_os_stdout', 'C19', 'refactor',
  ('klog/app/context.go', 'func (ctx *context) Print(text string) {\n\tfmt.Print(text)\n}', 'func (ctx *context) Print(text string) {\n\t_, _ = os.Stdout.WriteString(text)\n}'),
  ('klog/app/context.go', '\t"bufio"\n\t"fmt"\n', '\t"bufio"\n'))
mutant('r06_repeat_with_sleep', 'C04', 'refactor',
  ('klog/app/cli/util/with_repeat.go', '\tticker := gotime.NewTicker(interval)\n\tdefer ticker.Stop()\n', ''),
  ('klog/app/cli/util/with_repeat.go', 'for ; true; <-ticker.C {', 'for ; true; gotime.Sleep(interval) {'))
mutant('r07_read_via_open', 'C05', 'refactor',
  ('klog/app/file.go', '\tcontents, err := os.ReadFile(source.Path())\n', '\tcontents, err := func() ([]byte, error) {\n\t\tf, oErr := os.Open(source.Path())\n\t\tif oErr != nil {\n\t\t\treturn nil, oErr\n\t\t}\n\t\tdefer f.Close()\n\t\treturn io.ReadAll(f)\n\t}()\n'))
mutant('r08_pause_no_trailing_blank', 'C04', 'refactor',
  ('klog/parser/reconciling/pause_open_range.go', '\t\tsummary = summary.Append(appendableTags)\n', '\t\tif appendableTags != "" {\n\t\t\tsummary = summary.Append(appendableTags)\n\t\t}\n'))
mutant('r09_error_texts_changed', 'C05', 'refactor',
  ('klog/parser/reconciling/reconciler.go', 'errors.New("This operation wouldn’t result in a valid record")', 'errors.New("The result would not be a valid file")'),
  ('klog/app/context.go', '"Manipulation failed",\n\t\t\t\terr.Error(),\n\t\t\t\terr,\n\t\t\t)\n\t\t}\n\t}', '"Cannot apply the change",\n\t\t\t\terr.Error(),\n\t\t\t\terr,\n\t\t\t)\n\t\t}\n\t}'))
mutant('r10_bookmarks_json_compact', 'C19', 'refactor',
  ('klog/app/bookmark.go', '\tenc.SetIndent("", "  ")\n', ''))
mutant('r11_list_format_changed', 'C19', 'refactor',
  ('klog/app/cli/bookmarks.go', 'ctx.Print(b.Name().ValuePretty() + " -> " + b.Target().Path() + "\\n")\n\t}\n\treturn nil\n}\n\ntype BookmarksInfo', 'ctx.Print(b.Name().ValuePretty() + "\\t=> " + b.Target().Path() + "\\n")\n\t}\n\treturn nil\n}\n\ntype BookmarksInfo'))
import json
json.dump(M, open(os.path.join(OUT, 'index.json'), 'w'), indent=1)
print(len(M), 'patches')
