#!/bin/bash
# Applies every patch of sensitivity/patches to a scratch worktree of /repo, checks that it compiles and that the
# repository's tests still pass, runs the quick check of the property it targets, and writes sensitivity.md.
# usage: sensitivity/run.sh [pattern]
VERIF=$(cd "$(dirname "$0")/.." && pwd)
WT=${WT:-/tmp/wt-sens}
GOROOT124=/root/go/pkg/mod/golang.org/toolchain@v0.0.1-go1.24.0.linux-amd64
export PATH=$GOROOT124/bin:$PATH GOTOOLCHAIN=local GOFLAGS=-mod=mod GOPROXY=off GOSUMDB=off
[ -d "$WT" ] || git -C /repo worktree add -q --detach "$WT" HEAD
OUTMD=$VERIF/sensitivity.md
TMP=$(mktemp)
for p in $VERIF/sensitivity/patches/${1:-*}.diff; do
  name=$(basename $p .diff)
  prop=$(python3 -c "import json;print(json.load(open('$VERIF/sensitivity/patches/index.json'))['$name'][0])")
  kind=$(python3 -c "import json;print(json.load(open('$VERIF/sensitivity/patches/index.json'))['$name'][1])")
  git -C $WT checkout -q -- . && git -C $WT clean -qfd
  git -C $WT apply $p || { echo "| $name | $prop | $kind | patch does not apply | | |" >> $TMP; continue; }
  (cd $WT && go build ./... && go test -vet=off -count=1 ./... > /tmp/sens-test.log 2>&1); trc=$?
  tests="pass"; [ $trc -ne 0 ] && tests="FAIL"
  out=/tmp/sens-out/$name; rm -rf $out; mkdir -p $out
  start=$(date +%s)
  VERIF_REPO=$WT VERIF_OUT=$out $VERIF/bin/check $prop quick > $out/log 2>&1; rc=$?
  secs=$(( $(date +%s) - start ))
  fp=$(grep -m1 '^violation:' $out/log | sed 's/^violation: //')
  echo "| $name | $prop | $kind | $tests | exit $rc ${fp:+— $fp} | ${secs}s |" >> $TMP
  echo "$name $prop $kind tests=$tests rc=$rc $fp (${secs}s)"
done
git -C $WT checkout -q -- . && git -C $WT clean -qfd
{ echo "# Sensitivity: deliberate breakages and behaviour-preserving refactors (DESIGN §7.2)"; echo
  echo "Produced by \`sensitivity/run.sh\` on $(date -u +%Y-%m-%d) against /repo HEAD $(git -C /repo rev-parse --short HEAD). \`break\` rows must exit 1, \`refactor\` rows must exit 0."; echo
  echo "| patch | property | kind | repo tests | quick check | time |"; echo "|---|---|---|---|---|---|"; cat $TMP; } > $OUTMD
rm -f $TMP
