package main
