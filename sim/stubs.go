package main


type BkmCase struct{}
