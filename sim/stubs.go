package main


type HistCase struct{}
type BkmCase struct{}
