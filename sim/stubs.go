package main

type RotCase struct{}
type HistCase struct{}
type BkmCase struct{}
