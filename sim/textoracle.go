package main

// Textual oracles on raw bytes: C03 (only the defined lines change) and the raw style
// facts for C11. No record model, no klog code.

import (
	"fmt"
	"regexp"
	"strings"
)

type rawLine struct {
	Text string
	EOL  string
}

func splitRawLines(s string) []rawLine {
	var out []rawLine
	for len(s) > 0 {
		i := strings.IndexByte(s, '\n')
		if i < 0 {
			out = append(out, rawLine{Text: s})
			break
		}
		l := s[:i]
		eol := "\n"
		if strings.HasSuffix(l, "\r") {
			l = l[:len(l)-1]
			eol = "\r\n"
		}
		out = append(out, rawLine{Text: l, EOL: eol})
		s = s[i+1:]
	}
	return out
}

func isBlankText(t string) bool {
	return strings.Trim(t, " \t") == ""
}

var timeTokRe = regexp.MustCompile(`^<?\d{1,2}:\d{2}(am|pm)?>?$`)
var durTokRe = regexp.MustCompile(`^[-+]?(\d+h)?(\d+m)?$`)

// the placeholder of an open range: the ?-run right after "<indentation><start time> - " of an entry line
var placeholderRe = regexp.MustCompile(`^([ \t]+<?\d{1,2}:\d{2}(?:am|pm)?>? *- *)(\?+)(.*)$`)

func isDurTok(s string) bool {
	return s != "" && s != "-" && s != "+" && durTokRe.MatchString(s)
}

// lineChange classifies how an original line turned into its counterpart.
type lineChange struct {
	kind   string // "same" | "eol-added" | "placeholder" | "appended" | "duration" | "other"
	detail string
	newTok string
	oldTok string
}

func classifyLine(b, a rawLine) []lineChange {
	var cs []lineChange
	if b.EOL == "" && a.EOL == "\r\n" && strings.HasSuffix(b.Text, "\r") && a.Text == strings.TrimSuffix(b.Text, "\r") {
		// the file ended in a lone CR (a partial write cut a CRLF in two); the line break klog adds after it makes
		// the two bytes read as one CRLF - every byte of the old line is still there
		return []lineChange{{kind: "eol-added"}}
	}
	if b.EOL != a.EOL {
		if b.EOL == "" && a.EOL != "" {
			cs = append(cs, lineChange{kind: "eol-added"})
		} else {
			return []lineChange{{kind: "other", detail: fmt.Sprintf("line ending %q -> %q", b.EOL, a.EOL)}}
		}
	}
	if b.Text == a.Text {
		return cs
	}
	// placeholder replaced (optionally with text appended)
	if m := placeholderRe.FindStringSubmatch(b.Text); m != nil && strings.HasPrefix(a.Text, m[1]) {
		rest := a.Text[len(m[1]):]
		// rest = <time token><m[3]><appended>
		end := strings.IndexAny(rest, " \t")
		tok := rest
		if end >= 0 {
			tok = rest[:end]
		}
		if timeTokRe.MatchString(tok) && strings.HasPrefix(rest[len(tok):], m[3]) {
			app := rest[len(tok)+len(m[3]):]
			cs = append(cs, lineChange{kind: "placeholder", newTok: tok, oldTok: m[2]})
			if app != "" {
				cs = append(cs, lineChange{kind: "appended", detail: app})
			}
			return cs
		}
	}
	// one duration token replaced by another
	p := 0
	for p < len(b.Text) && p < len(a.Text) && b.Text[p] == a.Text[p] {
		p++
	}
	s := 0
	for s < len(b.Text)-p && s < len(a.Text)-p && b.Text[len(b.Text)-1-s] == a.Text[len(a.Text)-1-s] {
		s++
	}
	// widen to token boundaries (blank-delimited)
	for p > 0 && b.Text[p-1] != ' ' && b.Text[p-1] != '\t' {
		p--
	}
	for s > 0 && b.Text[len(b.Text)-s] != ' ' && b.Text[len(b.Text)-s] != '\t' {
		s--
	}
	if p <= len(b.Text)-s && p <= len(a.Text)-s {
		ot, nt := b.Text[p:len(b.Text)-s], a.Text[p:len(a.Text)-s]
		// the duration VALUE is the first token of the entry line; a duration-like word in the
		// summary is not the pause entry's value
		if isDurTok(ot) && isDurTok(nt) && strings.Trim(b.Text[:p], " \t") == "" && p > 0 {
			return append(cs, lineChange{kind: "duration", oldTok: ot, newTok: nt})
		}
	}
	// text appended
	if strings.HasPrefix(a.Text, b.Text) {
		return append(cs, lineChange{kind: "appended", detail: a.Text[len(b.Text):]})
	}
	return []lineChange{{kind: "other", detail: fmt.Sprintf("%q -> %q", b.Text, a.Text)}}
}

// c03Result: where the contiguous block of new lines sits and what happened to old lines.
type c03Result struct {
	ok       bool
	rule     string
	detail   string
	p        int // insertion point (index into the lines of B)
	n        int // number of inserted lines
	changes  map[int][]lineChange
	inserted []rawLine
	alts     []c03Result // every valid alignment (the first one is also stored in the fields above)
}

// checkC03 decides whether A is B plus one contiguous block of new lines, with only the
// modifications that the operation kind allows.
func checkC03(kind string, before, after string) c03Result {
	B, A := splitRawLines(before), splitRawLines(after)
	allBlank := true
	for _, l := range B {
		if !isBlankText(l.Text) {
			allBlank = false
		}
	}
	if allBlank {
		return c03Result{ok: true, p: 0, n: len(A), inserted: A}
	}
	n := len(A) - len(B)
	if n < 0 {
		return c03Result{rule: "lines-removed", detail: fmt.Sprintf("%d lines before, %d after", len(B), len(A))}
	}
	allowed := map[string]bool{"eol-added": true}
	switch kind {
	case "stop":
		allowed["placeholder"], allowed["appended"] = true, true
	case "switch":
		allowed["placeholder"] = true
	case "pause":
		allowed["duration"] = true
	}
	var best, found c03Result
	best.rule = "not-contiguous"
	bestBad := 1 << 30
	for p := 0; p <= len(B); p++ {
		changes := map[int][]lineChange{}
		bad := 0
		firstBad := ""
		counts := map[string]int{}
		for i := range B {
			j := i
			if i >= p {
				j = i + n
			}
			cs := classifyLine(B[i], A[j])
			if len(cs) == 0 {
				continue
			}
			changes[i] = cs
			for _, c := range cs {
				counts[c.kind]++
				okc := allowed[c.kind]
				if c.kind == "eol-added" {
					// only the final line of the file, and only when lines follow it now
					okc = i == len(B)-1 && j < len(A)-1
				}
				if !okc {
					bad++
					if firstBad == "" {
						firstBad = fmt.Sprintf("line %d: %s %s", i+1, c.kind, c.detail)
						if c.kind != "other" {
							firstBad = fmt.Sprintf("line %d: %s not allowed for %s (%q -> %q)", i+1, c.kind, kind, B[i].Text, A[j].Text)
						}
					}
				}
			}
		}
		for _, k := range []string{"placeholder", "duration"} {
			if counts[k] > 1 {
				bad += counts[k] - 1
				if firstBad == "" {
					firstBad = fmt.Sprintf("%d lines had their %s token replaced", counts[k], k)
				}
			}
		}
		if counts["appended"] > 1 {
			bad += counts["appended"] - 1
			if firstBad == "" {
				firstBad = "text appended to more than one line"
			}
		}
		if bad == 0 {
			alt := c03Result{ok: true, p: p, n: n, changes: changes, inserted: append([]rawLine{}, A[p:p+n]...)}
			if !found.ok {
				found = alt
			}
			found.alts = append(found.alts, alt)
			continue
		}
		if bad < bestBad {
			bestBad = bad
			best = c03Result{rule: "line-changed", detail: firstBad, p: p, n: n}
		}
	}
	if found.ok {
		return found
	}
	return best
}

// ---------------------------------------------------------------------------------------
// raw style facts (C11, appendix B)

type recFacts struct {
	first, last int // line range of the block (incl. attached blank lines) in the file
	dateLine    int
	y, m, d     int
	EOLs        map[string]bool
	Indent      string          // "" if the record has no indented line
	Slash       *bool           // date separator
	Conv        map[string]bool // "12h"/"24h" among its time values
	Dash        map[string]bool // "spaced"/"tight"
	Placeholder map[int]bool    // lengths of ?-runs of open ranges
}

var dateRe = regexp.MustCompile(`^(\d{4})([-/])(\d{2})[-/](\d{2})`)
var rangeRe = regexp.MustCompile(`^(<?\d{1,2}:\d{2}(am|pm)?>?)( *)-( *)(<?\d{1,2}:\d{2}(am|pm)?>?|\?+)`)

func leadingWS(s string) string {
	i := 0
	for i < len(s) && (s[i] == ' ' || s[i] == '\t') {
		i++
	}
	return s[:i]
}

// fileFacts splits a valid file into record blocks the way the format defines them and
// reads each block's style off the raw text.
func fileFacts(text string) []recFacts {
	lines := splitRawLines(text)
	var out []recFacts
	i := 0
	for i < len(lines) {
		start := i
		for i < len(lines) && isBlankText(lines[i].Text) {
			i++
		}
		if i >= len(lines) {
			// trailing blank lines belong to the previous block
			if len(out) > 0 {
				out[len(out)-1].last = len(lines) - 1
				for k := start; k < len(lines); k++ {
					if lines[k].EOL != "" {
						out[len(out)-1].EOLs[lines[k].EOL] = true
					}
				}
			}
			break
		}
		f := recFacts{first: start, dateLine: i, EOLs: map[string]bool{}, Conv: map[string]bool{}, Dash: map[string]bool{}, Placeholder: map[int]bool{}}
		if m := dateRe.FindStringSubmatch(lines[i].Text); m != nil {
			fmt.Sscanf(m[1], "%d", &f.y)
			fmt.Sscanf(m[3], "%d", &f.m)
			fmt.Sscanf(m[4], "%d", &f.d)
			sl := m[2] == "/"
			f.Slash = &sl
		}
		for i < len(lines) && !isBlankText(lines[i].Text) {
			t := lines[i].Text
			ws := leadingWS(t)
			if ws != "" && i > f.dateLine {
				if f.Indent == "" {
					f.Indent = ws
				}
				if ws == f.Indent {
					val := t[len(ws):]
					if m := rangeRe.FindStringSubmatch(val); m != nil {
						conv := "24h"
						if m[2] != "" {
							conv = "12h"
						}
						f.Conv[conv] = true
						if strings.HasPrefix(m[5], "?") {
							f.Placeholder[len(m[5])] = true
						} else if m[6] != "" {
							f.Conv["12h"] = true
						} else {
							f.Conv["24h"] = true
						}
						if m[3] != "" && m[4] != "" {
							f.Dash["spaced"] = true
						} else if m[3] == "" && m[4] == "" {
							f.Dash["tight"] = true
						}
					}
				}
			}
			i++
		}
		for i < len(lines) && isBlankText(lines[i].Text) {
			i++
		}
		f.last = i - 1
		for k := f.first; k <= f.last; k++ {
			if lines[k].EOL != "" {
				f.EOLs[lines[k].EOL] = true
			}
		}
		out = append(out, f)
	}
	return out
}
