package main

// bkm engine — C19: the bookmark database behaves as a persistent name -> absolute path map.
// Every command is a fresh simulated process; only bookmarks.json carries state.

import (
	"encoding/json"
	"fmt"
	"os"
	"path/filepath"
	"sort"
	"strings"
	"time"

	"github.com/jotaen/klog/klog/verifsim"
)

type BkmOp struct {
	Kind       string             `json:"kind"`           // set unset clear list info resolve
	Name       string             `json:"name,omitempty"` // as typed ("" = omitted)
	File       string             `json:"file,omitempty"` // relative to $ROOT
	Create     bool               `json:"create,omitempty"`
	Force      bool               `json:"force,omitempty"`
	Quiet      bool               `json:"quiet,omitempty"`
	Yes        bool               `json:"yes,omitempty"`
	Stdin      string             `json:"stdin,omitempty"`
	Info       string             `json:"info,omitempty"`        // "", dir, file
	RelFile    string             `json:"rel_file,omitempty"`    // set: the file is given relative to the working directory ($ROOT): rel | dot | dotdot
	Plain      bool               `json:"plain,omitempty"`       // resolve: the argument is a RELATIVE FILE path spelled like the name (no @); cwd = $ROOT
	Extra      string             `json:"extra,omitempty"`       // resolve: an additional plain file argument
	ExtraFirst bool               `json:"extra_first,omitempty"` // ... placed before the bookmark argument
	Alias      bool               `json:"alias,omitempty"`
	Plan       verifsim.FaultPlan `json:"plan"`
	Rot        string             `json:"rot_b64,omitempty"` // bookmarks.json replaced by this before the command
	RotSet     bool               `json:"rot,omitempty"`
	Remove     string             `json:"remove,omitempty"` // a target file removed before the command
	Cpus       int                `json:"cpus,omitempty"`
	Tape       []int              `json:"tape,omitempty"`
	MapTape    []int              `json:"map_tape,omitempty"`
}

type BkmCase struct {
	Files    map[string]string `json:"files"` // relative path -> content
	NoCfgDir bool              `json:"no_cfg_dir,omitempty"`
	CfgVia   string            `json:"cfg_via,omitempty"` // how the config folder is found: "" = $KLOG_CONFIG_HOME, "xdg" = $XDG_CONFIG_HOME/klog, "home" = $HOME/.config/klog
	BaseUnix int64             `json:"base_unix"`
	Ops      []BkmOp           `json:"ops"`
}

type bkmEngine struct{}

func init() { engines["bkm"] = bkmEngine{} }

var bkmNames = []string{"", "work", "@work", "Work", "privat", "@ünï", "my project", "@a b", "q\"uote", "it's", "@default", "default", "z", "@Z", "読む", "x-1_y", "🚀", "@𝓌ork", "a@b", "me@", "@x@y", "2fa",
	// texts that look like escapes of the storage format: they must come back exactly as typed
	"n\\u0026x", "@lt\\u003c", "back\\slash", "amp&<>", "nl\\n", "pct%20"}
var bkmFiles = []string{"w.klg", "x.klg", "🙂 dir/e.klg", "sub dir/w.klg", "other/x.klg", "sub dir/ü file.klg", "q'uo\"te.klg", "bad.klg", "new1.klg", "new 2.klg", "nodir/n.klg", "empty.klg", "esc\\u0026.klg"}

func normName(typed string) string {
	n := strings.TrimPrefix(typed, "@")
	if n == "" {
		return "default"
	}
	return n
}

func (bkmEngine) generate(property string, seed int64, index int, tier string) *Scenario {
	r := newRng(seed, "bkm", property, fmt.Sprint(index))
	today := time.Date(2024, 5, 17, 10, 0, 0, 0, time.UTC)
	bc := &BkmCase{Files: map[string]string{}, NoCfgDir: r.Chance(1, 3), BaseUnix: today.Unix()}
	bc.CfgVia = r.Pick([]string{"", "", "", "xdg", "home"})
	for _, f := range []string{"w.klg", "x.klg", "🙂 dir/e.klg", "sub dir/w.klg", "other/x.klg", "sub dir/ü file.klg", "q'uo\"te.klg", "esc\\u0026.klg"} {
		d := genDoc(r, docOpts{today: today, maxRecords: 2})
		bc.Files[f] = d.render()
	}
	// files in the working directory that are spelled like bookmark names
	for _, f := range []string{"work", "Work", "z", "default"} {
		d := genDoc(r, docOpts{today: today, maxRecords: 2})
		bc.Files[f] = d.render()
	}
	bc.Files["bad.klg"] = "2024-01-01\nthis is\n  not valid\n\tat all 1h\n"
	bc.Files["empty.klg"] = ""
	n := r.Range(1, 30)
	names := []string{}
	// a small working set of names per scenario (≤ 8)
	for len(names) < r.Range(2, 8) {
		names = append(names, bkmNames[r.Intn(len(bkmNames))])
	}
	lastSet := map[string]string{} // name -> file of the latest `set` (whether or not it will succeed)
	sibling := map[string]string{"w.klg": "sub dir/w.klg", "sub dir/w.klg": "w.klg", "x.klg": "other/x.klg", "other/x.klg": "x.klg"}
	for i := 0; i < n; i++ {
		op := BkmOp{Alias: r.Chance(1, 8), Tape: r.Tape(24, 64), MapTape: r.Tape(12, 7)}
		name := names[r.Intn(len(names))]
		switch k := r.Intn(20); {
		case k < 8:
			op.Kind = "set"
			op.Name = name
			op.File = bkmFiles[r.Intn(len(bkmFiles))]
			lastSet[normName(name)] = op.File
			if r.Chance(1, 5) {
				op.RelFile = r.Pick([]string{"rel", "dot", "dotdot"})
			}
			if strings.HasPrefix(op.File, "new") || op.File == "nodir/n.klg" {
				op.Create = r.Chance(2, 3)
			} else {
				op.Create = r.Chance(1, 12)
			}
			op.Force = r.Chance(1, 5)
			op.Quiet = r.Chance(1, 5)
		case k < 11:
			op.Kind = "unset"
			op.Name = name
			if op.Name == "" {
				op.Name = "@default"
			}
			op.Quiet = r.Chance(1, 5)
		case k < 12:
			op.Kind = "clear"
			op.Yes = r.Chance(1, 2)
			if !op.Yes {
				op.Stdin = r.Pick([]string{"y\n", "Y\n", "n\n", "\n", "yes\n", "", "y"})
			}
			op.Quiet = r.Chance(1, 5)
		case k < 15:
			op.Kind = "list"
		case k < 17:
			op.Kind = "info"
			op.Name = name
			if op.Name == "" {
				op.Name = "@default"
			}
			op.Info = r.Pick([]string{"", "", "dir", "file"})
		default:
			op.Kind = "resolve"
			op.Name = name
			if op.Name != "" && !strings.HasPrefix(op.Name, "@") {
				op.Name = "@" + op.Name
			}
			if r.Chance(1, 6) {
				// a relative FILE argument that happens to be spelled like a bookmark name
				op.Name = r.Pick([]string{"work", "Work", "z", "default", "privat"})
				op.Plain = true
			} else if op.Name != "" && r.Chance(1, 2) {
				op.Extra = r.Pick([]string{"w.klg", "x.klg", "sub dir/w.klg", "other/x.klg"})
				if sib := sibling[lastSet[normName(name)]]; sib != "" && r.Chance(1, 2) {
					op.Extra = sib // another file with the same base name in another directory
				} else if r.Chance(1, 2) {
					// a second bookmark in the same invocation
					n2 := names[r.Intn(len(names))]
					if n2 == "" {
						n2 = "default"
					}
					op.Extra = "@" + strings.TrimPrefix(n2, "@")
				}
				op.ExtraFirst = r.Chance(1, 2)
			}
		}
		if r.Chance(1, 6) {
			op.Cpus = r.Pick2([]int{2, 8})
		}
		// faults
		switch k := r.Intn(80); {
		case k < 2:
			op.Plan.KillAtEvent = r.Range(1, 8)
		case k < 4:
			op.Plan.WriteNth = 1
			op.Plan.WriteFault = r.Pick([]string{"error_before", "error_after", "torn"})
			op.Plan.WriteCut = r.Intn(500)
		case k < 6:
			op.Plan.ReadNth = r.Range(1, 3)
		case k == 10:
			op.Plan.MetaFailNth = r.Range(1, 4)
		case k == 6 && i > n/2:
			op.RotSet = true
			op.Rot = r.Pick([]string{"{", "[{\"name\":\"a\"}]", "[{\"name\":\"a\",\"path\":\"relative/x.klg\"}]", "not json", "[1,2]", "[{\"name\":1,\"path\":\"/x\"}]", "[", "\x00\x00", "[{\"name\":\"a\",\"path\":null}]"})
		case k == 7:
			op.RotSet = true
			op.Rot = "@DAMAGE" // damage the current content (resolved at execution: deterministic from the seed)
		case k < 10:
			op.Remove = r.Pick([]string{"w.klg", "x.klg"})
		}
		bc.Ops = append(bc.Ops, op)
	}
	return &Scenario{Format: 1, Property: property, Engine: "bkm", Seed: seed, Index: index, Tier: tier, Bkm: bc}
}

func (op *BkmOp) argv(root string) []string {
	cmd := "bookmarks"
	if op.Alias {
		cmd = "bk"
	}
	switch op.Kind {
	case "set":
		a := []string{cmd, "set"}
		if op.Alias {
			a = []string{cmd, "new"}
		}
		if op.Create {
			a = append(a, "--create")
		}
		if op.Force {
			a = append(a, "--force")
		}
		if op.Quiet {
			a = append(a, "--quiet")
		}
		switch op.RelFile {
		case "rel":
			a = append(a, op.File)
		case "dot":
			a = append(a, "./"+op.File)
		case "dotdot":
			a = append(a, "sub dir/../"+op.File)
		default:
			a = append(a, filepath.Join(root, op.File))
		}
		if op.Name != "" {
			a = append(a, op.Name)
		}
		return a
	case "unset":
		a := []string{cmd, "unset"}
		if op.Alias {
			a = []string{cmd, "rm"}
		}
		if op.Quiet {
			a = append(a, "--quiet")
		}
		return append(a, op.Name)
	case "clear":
		a := []string{cmd, "clear"}
		if op.Yes {
			a = append(a, "--yes")
		}
		if op.Quiet {
			a = append(a, "--quiet")
		}
		return a
	case "list":
		if op.Alias {
			return []string{cmd, "ls"}
		}
		return []string{cmd, "list"}
	case "info":
		a := []string{cmd, "info"}
		if op.Info != "" {
			a = append(a, "--"+op.Info)
		}
		return append(a, op.Name)
	case "resolve":
		if op.Name == "" {
			return []string{"json"}
		}
		if op.Plain {
			return []string{"json", op.Name}
		}
		if op.Extra != "" {
			extra := filepath.Join(root, op.Extra)
			if strings.HasPrefix(op.Extra, "@") {
				extra = op.Extra
			}
			if op.ExtraFirst {
				return []string{"json", extra, op.Name}
			}
			return []string{"json", op.Name, extra}
		}
		return []string{"json", op.Name}
	}
	return nil
}

// readDB is the harness's own reading of bookmarks.json.
// class: "valid" (model), "invalid" (klog must refuse), "unknown" (not judged).
func readDB(path string) (map[string]string, string, string) {
	b, err := os.ReadFile(path)
	if err != nil {
		if os.IsNotExist(err) {
			return map[string]string{}, "valid", ""
		}
		return nil, "unknown", ""
	}
	raw := string(b)
	if raw == "" {
		return map[string]string{}, "valid", raw
	}
	var arr []map[string]any
	if err := json.Unmarshal(b, &arr); err != nil {
		var anyv any
		if json.Unmarshal(b, &anyv) != nil {
			return nil, "invalid", raw // not JSON at all
		}
		return nil, "unknown", raw
	}
	if arr == nil {
		return nil, "unknown", raw
	}
	m := map[string]string{}
	for _, o := range arr {
		if o == nil {
			return nil, "unknown", raw
		}
		name, ok1 := o["name"].(string)
		path, ok2 := o["path"].(string)
		_, hasName := o["name"]
		_, hasPath := o["path"]
		if !hasName || !hasPath {
			// Go's encoding/json matches field names case-insensitively ("patH" is accepted as
			// "path"): a differently-cased key is neither clearly valid nor clearly missing
			for k := range o {
				if strings.EqualFold(k, "name") && !hasName || strings.EqualFold(k, "path") && !hasPath {
					return nil, "unknown", raw
				}
			}
			return nil, "invalid", raw // missing field
		}
		if o["name"] == nil || o["path"] == nil {
			return nil, "invalid", raw // null field
		}
		if !ok1 || !ok2 {
			return nil, "invalid", raw // wrong type: does not decode into a string field
		}
		if !filepath.IsAbs(path) {
			return nil, "invalid", raw
		}
		if name == "" || strings.HasPrefix(name, "@") || len(o) != 2 || filepath.Clean(path) != path {
			return nil, "unknown", raw
		}
		if _, dup := m[name]; dup {
			return nil, "unknown", raw
		}
		m[name] = path
	}
	return m, "valid", raw
}

func copyMap(m map[string]string) map[string]string {
	o := map[string]string{}
	for k, v := range m {
		o[k] = v
	}
	return o
}

func sameMap(a, b map[string]string) bool {
	if len(a) != len(b) {
		return false
	}
	for k, v := range a {
		if b[k] != v {
			return false
		}
	}
	return true
}

func mapString(m map[string]string) string {
	ks := make([]string, 0, len(m))
	for k := range m {
		ks = append(ks, k)
	}
	sort.Strings(ks)
	var b strings.Builder
	for _, k := range ks {
		fmt.Fprintf(&b, "@%s->%s; ", k, m[k])
	}
	return b.String()
}

// extraPath resolves the additional argument of a resolve operation: a second bookmark or a plain path.
func extraPath(op *BkmOp, model map[string]string, root string) (string, bool) {
	if strings.HasPrefix(op.Extra, "@") {
		p, ok := model[normName(op.Extra)]
		return p, ok
	}
	return filepath.Join(root, op.Extra), true
}

// resolvedContentMismatch compares the records of a successful `klog json <files...>` with the harness's own
// reading of these files. "" = agrees (or not judged: a file the harness cannot parse).
func resolvedContentMismatch(paths []string, stdout string) string {
	var want []string
	for _, p := range paths {
		b, err := os.ReadFile(p)
		if err != nil {
			return ""
		}
		ds := parseSerialDumpRecords(string(b))
		if ds == nil {
			return ""
		}
		for _, d := range ds {
			want = append(want, fmt.Sprintf("%s %q", d.DateText, strings.Join(d.Summary, "\n")))
		}
	}
	var env struct {
		Records []struct {
			Date    string `json:"date"`
			Summary string `json:"summary"`
		} `json:"records"`
	}
	if err := json.Unmarshal([]byte(stdout), &env); err != nil {
		return "cannot decode the JSON output: " + shortText(stdout, 200)
	}
	var got []string
	for _, r := range env.Records {
		got = append(got, fmt.Sprintf("%s %q", r.Date, r.Summary))
	}
	if strings.Join(got, " | ") != strings.Join(want, " | ") {
		return fmt.Sprintf("`klog json %s` shows the records [%s], the files hold [%s]", strings.Join(paths, " "), shortText(strings.Join(got, " | "), 300), shortText(strings.Join(want, " | "), 300))
	}
	return ""
}

func fileValid(path string) (exists bool, valid bool) {
	b, err := os.ReadFile(path)
	if err != nil {
		return false, false
	}
	return true, parseSerialDumpRecords(string(b)) != nil
}

func (bkmEngine) execute(sc *Scenario) *Outcome {
	out := &Outcome{Index: sc.Index}
	bc := sc.Bkm
	root, err := mkScratch("bkm")
	if err != nil {
		out.Error = err.Error()
		return out
	}
	defer os.RemoveAll(root)
	for f, c := range bc.Files {
		p := filepath.Join(root, f)
		_ = os.MkdirAll(filepath.Dir(p), 0o755)
		_ = os.WriteFile(p, []byte(c), 0o644)
	}
	// relative file arguments are resolved against the working directory: make it the scratch root
	if wd, err := os.Getwd(); err == nil {
		if os.Chdir(root) == nil {
			defer os.Chdir(wd)
		}
	}
	cfg := filepath.Join(root, "cfg")
	env := map[string]string{"KLOG_CONFIG_HOME": cfg, "NO_COLOR": "1"}
	switch bc.CfgVia {
	case "xdg":
		cfg = filepath.Join(root, "xdg", "klog")
		env = map[string]string{"XDG_CONFIG_HOME": filepath.Join(root, "xdg"), "HOME": filepath.Join(root, "nohome"), "NO_COLOR": "1"}
	case "home":
		cfg = filepath.Join(root, "home", ".config", "klog")
		env = map[string]string{"HOME": filepath.Join(root, "home"), "NO_COLOR": "1"}
	}
	if !bc.NoCfgDir {
		_ = os.MkdirAll(cfg, 0o755)
	}
	db := filepath.Join(cfg, "bookmarks.json")
	clock := time.Unix(bc.BaseUnix, 0).UTC()
	model := map[string]string{}
	known := true // false: the database content is not judged until it is cleared
	var seq []string
	successes := 0
	report := func(i int, op *BkmOp, argv []string, rule, detail string) {
		out.Verdicts = append(out.Verdicts, mkVerdict("C19", rule, op.Kind, fmt.Sprintf("step %d `klog %s`: %s | model: %s", i+1, strings.Join(argv, " "), detail, mapString(model)), i+1))
	}
	out.Log = append(out.Log, "bkm")
	for i := range bc.Ops {
		op := &bc.Ops[i]
		if op.RotSet {
			content := op.Rot
			if content == "@DAMAGE" {
				cur, _ := os.ReadFile(db)
				r := newRng(sc.Seed, "bkmrot", fmt.Sprint(sc.Index), fmt.Sprint(i))
				// damage is applied with the scratch root masked, so that it never depends on
				// the name of the scratch directory
				mask := strings.Repeat("\x01", len(root))
				content = damage(r, strings.ReplaceAll(string(cur), root, mask), damageKinds[r.Intn(len(damageKinds))])
				content = strings.ReplaceAll(content, mask, root)
			}
			_ = os.MkdirAll(cfg, 0o755)
			_ = os.WriteFile(db, []byte(content), 0o644)
			out.stat("fired_bitrot", 1)
		}
		if op.Remove != "" {
			_ = os.Remove(filepath.Join(root, op.Remove))
			out.stat("fired_target_removed", 1)
		}
		// the harness's own reading of the database before the command
		pre, class, rawBefore := readDB(db)
		switch class {
		case "valid":
			if op.RotSet || !known {
				model = pre
				known = true
			} else if !sameMap(pre, model) {
				// must not happen: the model is re-read after every command
				model = pre
			}
		case "invalid":
			known = false
		case "unknown":
			known = false
		}
		argv := op.argv(root)
		cpus := op.Cpus
		if cpus == 0 {
			cpus = 1
		}
		targetPath := filepath.Join(root, op.File)
		existsBefore, validBefore := false, false
		targetBefore := ""
		if op.Kind == "set" {
			if tb, err := os.ReadFile(targetPath); err == nil {
				targetBefore = string(tb)
			}
			existsBefore, validBefore = fileValid(targetPath)
			if fi, err := os.Stat(targetPath); err == nil && !fi.IsDir() {
				existsBefore = true
			}
		}
		res := runProc(&ProcSpec{Argv: argv, Tape: op.Tape, MapTape: op.MapTape, MapOrder: true, Plan: op.Plan, Base: clock, Root: root, Stdin: op.Stdin, Cpus: cpus, Env: env})
		out.Procs++
		clock = clock.Add(time.Minute)
		out.Log = append(out.Log, fmt.Sprintf("op %d %v", i+1, op.argv("$ROOT")))
		out.Log = append(out.Log, res.logLines()...)
		for k, v := range res.Fired {
			out.stat("fired_"+k, v)
		}
		post, postClass, rawAfter := readDB(db)
		out.Log = append(out.Log, "db "+fnv(normRoot(rawAfter, root)))
		out.measure("database_states", fnv(normRoot(rawAfter, root)))
		errFault := res.Fired["write_error"] > 0 || res.Fired["read_error"] > 0 || res.Fired["meta_error"] > 0
		faulted := res.Killed || res.Fired["torn_write"] > 0 || (errFault && res.Failed)
		outcome := "ok"
		if res.Failed {
			outcome = "fail"
		}
		if faulted {
			outcome = "fault"
		}
		seq = append(seq, op.Kind+":"+outcome)
		out.stat("op_"+op.Kind, 1)
		out.stat("outcome_"+outcome, 1)

		if res.Crashed {
			report(i, op, argv, "panic", "klog crashed: "+res.PanicValue+" at "+res.PanicSite)
			known = false
			continue
		}
		if res.Hang {
			report(i, op, argv, "hang", "the command never finished")
			known = false
			continue
		}
		if faulted {
			// the database is whatever is on disk now
			if postClass == "valid" {
				model, known = post, true
			} else {
				known = false
			}
			continue
		}
		if class == "invalid" {
			// a damaged database: every bookmark command must fail and must not rewrite it
			out.stat("invalid_db_steps", 1)
			if op.Kind != "resolve" || true {
				if !res.Failed {
					if op.Kind == "clear" && !op.Yes && strings.ToLower(strings.TrimRight(op.Stdin, "\n")) != "y" {
						// declined before the database is read: nothing to refuse
					} else {
						report(i, op, argv, "invalid-db-accepted", fmt.Sprintf("bookmarks.json is damaged (%q) but the command succeeded", shortText(rawBefore, 120)))
					}
				}
				if rawAfter != rawBefore {
					report(i, op, argv, "invalid-db-rewritten", fmt.Sprintf("bookmarks.json is damaged (%q) and was rewritten to %q", shortText(rawBefore, 120), shortText(rawAfter, 120)))
				}
			}
			continue
		}
		if !known {
			out.stat("unjudged_steps", 1)
			if postClass == "valid" && op.Kind == "clear" && !res.Failed {
				model, known = post, true
			}
			continue
		}

		// --- the model ---
		name := normName(op.Name)
		expectFail := false
		next := copyMap(model)
		switch op.Kind {
		case "set":
			switch {
			case op.Create && existsBefore:
				expectFail = true
			case op.Create && !dirExists(filepath.Dir(targetPath)):
				expectFail = true
			case !op.Create && !op.Force && (!existsBefore || !validBefore):
				expectFail = true
			}
			if !expectFail {
				next[name] = targetPath
			}
		case "unset":
			if _, ok := model[name]; !ok {
				expectFail = true
			} else {
				delete(next, name)
			}
		case "clear":
			if op.Yes {
				next = map[string]string{}
			} else {
				line, hasLine := firstLine(op.Stdin)
				if !hasLine {
					expectFail = true
				} else if strings.ToLower(line) == "y" {
					next = map[string]string{}
				}
			}
		case "info":
			if _, ok := model[name]; !ok {
				expectFail = true
			}
		case "resolve":
			p, ok := model[name]
			if op.Plain {
				// a plain argument is a file path (relative to the working directory), never a bookmark
				p, ok = filepath.Join(root, op.Name), true
			}
			if !ok {
				expectFail = true
			} else if ex, _ := fileValid(p); !ex {
				expectFail = true
			} else if op.Extra != "" {
				if p2, ok2 := extraPath(op, model, root); !ok2 {
					expectFail = true
				} else if ex2, _ := fileValid(p2); !ex2 {
					expectFail = true
				}
			}
		}
		if expectFail != res.Failed {
			if expectFail {
				report(i, op, argv, "should-fail", "the map model says this command fails, klog reported success; output: "+shortText(res.Stdout, 200))
			} else {
				report(i, op, argv, "should-succeed", "the map model says this command succeeds, klog failed: "+shortText(res.ErrText, 200))
			}
			if postClass == "valid" {
				model = post
			} else {
				known = false
			}
			continue
		}
		if res.Failed {
			if rawAfter != rawBefore {
				report(i, op, argv, "failure-but-wrote", fmt.Sprintf("the command failed but bookmarks.json changed: %q -> %q", shortText(rawBefore, 200), shortText(rawAfter, 200)))
			}
			if op.Kind == "set" && op.Create && existsBefore {
				// the existing target must not have been truncated
				if b, _ := os.ReadFile(targetPath); string(b) != targetBefore {
					report(i, op, argv, "create-truncated-target", "set --create on an existing file changed that file")
				}
			}
			if postClass == "valid" {
				model = post
			}
			continue
		}
		// success: the database on disk must decode to exactly the model's next state
		if postClass != "valid" {
			report(i, op, argv, "db-unreadable", fmt.Sprintf("after the command bookmarks.json does not decode to a name->absolute path list: %q", shortText(rawAfter, 300)))
			known = false
			continue
		}
		if !sameMap(post, next) {
			report(i, op, argv, "db-differs", fmt.Sprintf("database after the command: %s | expected: %s", mapString(post), mapString(next)))
			model = post
			continue
		}
		if op.Kind == "set" || op.Kind == "unset" || (op.Kind == "clear" && len(model) > 0 && len(next) == 0) {
			successes++
		}
		model = next
		// output oracles
		switch op.Kind {
		case "list":
			lines := nonEmptyLines(res.Stdout)
			names := make([]string, 0, len(model))
			for k := range model {
				names = append(names, k)
			}
			sort.Strings(names)
			if len(names) == 0 {
				if len(lines) > 1 || strings.Contains(res.Stdout, "->") {
					report(i, op, argv, "list-differs", fmt.Sprintf("no bookmarks expected, output: %q", shortText(res.Stdout, 300)))
				}
				break
			}
			if len(lines) != len(names) {
				report(i, op, argv, "list-differs", fmt.Sprintf("%d lines for %d bookmarks: %q", len(lines), len(names), shortText(res.Stdout, 400)))
				break
			}
			for k, n := range names {
				if !strings.Contains(lines[k], "@"+n) || !strings.Contains(lines[k], model[n]) {
					report(i, op, argv, "list-differs", fmt.Sprintf("line %d is %q, expected bookmark @%s -> %s (name order)", k+1, lines[k], n, model[n]))
					break
				}
			}
		case "info":
			want := model[name]
			switch op.Info {
			case "dir":
				want = filepath.Dir(want)
			case "file":
				want = filepath.Base(want)
			}
			if strings.TrimRight(res.Stdout, "\n") != want {
				report(i, op, argv, "info-differs", fmt.Sprintf("output %q, expected %q", res.Stdout, want))
			}
		case "resolve":
			directArgv := []string{"json", model[name]}
			if op.Plain {
				directArgv = []string{"json", filepath.Join(root, op.Name)}
			}
			paths := []string{directArgv[1]}
			if op.Extra != "" {
				p2, _ := extraPath(op, model, root)
				if op.ExtraFirst {
					paths = []string{p2, paths[0]}
				} else {
					paths = append(paths, p2)
				}
				directArgv = append([]string{"json"}, paths...)
			}
			direct := runProc(&ProcSpec{Argv: directArgv, Base: clock, Root: root, Cpus: 1, Env: env})
			out.Procs++
			if direct.Stdout != res.Stdout || direct.ExitCode != res.ExitCode {
				report(i, op, argv, "resolve-differs", fmt.Sprintf("`klog json %s` and `klog json %s` differ: %q vs %q", op.Name, directArgv[1], shortText(res.Stdout, 200), shortText(direct.Stdout, 200)))
			}
			// ... and both must be the records of exactly these files, in the order of the arguments (the harness
			// reads and parses the files itself: a fault shared by both runs does not hide)
			if msg := resolvedContentMismatch(paths, res.Stdout); msg != "" {
				report(i, op, argv, "resolve-content", msg)
			}
			out.stat("resolve_content_checked", 1)
			if len(paths) > 1 && paths[0] != paths[1] && filepath.Base(paths[0]) == filepath.Base(paths[1]) {
				out.stat("resolve_same_base_name_two_files", 1)
			}
		case "set":
			if op.Create {
				if b, err := os.ReadFile(targetPath); err != nil || len(b) != 0 {
					report(i, op, argv, "create-target", "set --create did not leave a new empty target file")
				}
			}
		}
	}
	if successes >= 2 {
		out.Distinct = append(out.Distinct, fnv(strings.Join(seq, ",")))
	}
	if sc.Index%41 == 0 {
		var argvs []string
		for i := range bc.Ops {
			argvs = append(argvs, strings.Join(bc.Ops[i].argv("$ROOT"), " "))
		}
		out.Sample = map[string]any{"index": sc.Index, "ops": argvs, "outcomes": seq}
	}
	out.finish()
	return out
}

func dirExists(p string) bool {
	fi, err := os.Stat(p)
	return err == nil && fi.IsDir()
}

func firstLine(s string) (string, bool) {
	if s == "" {
		return "", false
	}
	if i := strings.IndexByte(s, '\n'); i >= 0 {
		return strings.TrimSuffix(s[:i], "\r"), true
	}
	return s, true
}

func nonEmptyLines(s string) []string {
	var out []string
	for _, l := range strings.Split(s, "\n") {
		if strings.TrimSpace(l) != "" {
			out = append(out, l)
		}
	}
	return out
}

func (bkmEngine) shrink(sc *Scenario) []*Scenario {
	var out []*Scenario
	bc := sc.Bkm
	add := func(f func(c *BkmCase)) {
		c := cloneScenario(sc)
		f(c.Bkm)
		out = append(out, c)
	}
	n := len(bc.Ops)
	for k := 1; k < n; k++ {
		k := k
		add(func(c *BkmCase) { c.Ops = c.Ops[:k] })
	}
	for size := n / 2; size >= 1; size /= 2 {
		for start := 0; start+size <= n; start += size {
			start, size := start, size
			add(func(c *BkmCase) { c.Ops = append(append([]BkmOp{}, c.Ops[:start]...), c.Ops[start+size:]...) })
		}
		if size == 1 {
			break
		}
	}
	for i := range bc.Ops {
		i := i
		op := bc.Ops[i]
		if op.Plan != (verifsim.FaultPlan{}) {
			add(func(c *BkmCase) { c.Ops[i].Plan = verifsim.FaultPlan{} })
		}
		if op.RotSet {
			add(func(c *BkmCase) { c.Ops[i].RotSet, c.Ops[i].Rot = false, "" })
		}
		if op.Remove != "" {
			add(func(c *BkmCase) { c.Ops[i].Remove = "" })
		}
		if op.Alias || op.Quiet || op.Cpus != 0 || len(op.Tape) > 0 {
			add(func(c *BkmCase) {
				c.Ops[i].Alias, c.Ops[i].Quiet, c.Ops[i].Cpus, c.Ops[i].Tape, c.Ops[i].MapTape = false, false, 0, nil, nil
			})
		}
	}
	if bc.CfgVia != "" {
		add(func(c *BkmCase) { c.CfgVia = "" })
	}
	if bc.NoCfgDir {
		add(func(c *BkmCase) { c.NoCfgDir = false })
	}
	return out
}
