package main

func init() {
	coverageRule["C07"] = "cases = (text, worker count, schedule tape) drawn from VERIF_SEED: texts are generated valid documents, fault-damaged documents and fragment soups; worker counts 1..len+2 biased to boundaries; schedule = seeded pick among parked goroutines at every go/send/close point. distinct_nontrivial counts distinct (text, workers, schedule trace) hashes that had >= 2 non-empty chunks AND delivered results in an order different from the chunk order."
	assumptions["C07"] = []string{
		"the serial parser is the reference; a text on which both engines panic is a C06 matter and only noted",
		"cooperative scheduling explores interleavings at synchronisation points (go, send, close, Lock, WaitGroup.Done statements); unsynchronised data races are only visible to the -race build run by the thorough tier",
		"Go 1.24.0 with GOEXPERIMENT=synctest; chunk-boundary facts in counters are recomputed by the harness for coverage accounting only, never for the verdict",
	}
	coverageRule["C06"] = "cases = byte strings that storage/transfer faults make of generated valid documents (bit flips, dropped/inserted bytes, truncation, zero blocks, stuttered spans, lone CR, partial CRLF conversion, Latin-1 re-encoding, random blocks, misplaced blocks), each parsed serially, in parallel under a seeded schedule, and pushed through read-only and mutating commands. distinct_nontrivial counts distinct damaged texts (by hash) that differ from their undamaged origin."
	assumptions["C06"] = []string{
		"partial by construction: fault-derived inputs only, not all byte strings (DESIGN §5.4)",
		"a hang is reported only when the real-time watchdog reproduces it in a fresh process",
	}
	coverageRule["C03"] = "cases = histories of mutating commands over generated valid files under random CPU count / schedule / clock / config; distinct_nontrivial counts distinct (file hash before, command line) pairs of successful mutating steps whose file was non-empty."
	coverageRule["C04"] = "cases = command histories (1-25 operations incl. pause with tick plans, clock jumps, user edits) continued from klog's own output; distinct_nontrivial counts distinct sequences of (operation kind, outcome) with >= 2 successful mutations."
	coverageRule["C05"] = "cases = histories in which a chosen share of commands is built to fail (bad step of switch, invalid entry text, invalid/missing/unreadable target) plus injected kills, torn writes and I/O errors; distinct_nontrivial counts distinct (file hash, command line, outcome) triples of failing commands and of fault-hit commands."
	coverageRule["C11"] = "cases = (file, command, config, clock) executed under K different map-iteration tapes and CPU counts/schedules; distinct_nontrivial counts distinct (file hash, command line) pairs where at least one style election had >= 2 candidates (a tie or near tie) or the target record had no own style."
	coverageRule["C17"] = "cases = (minute of day, day kind, rounding, date selection, record layout, command); distinct_nontrivial counts distinct coverage cells hit (minute × rounding × selection × layout × command)."
	coverageRule["C19"] = "cases = histories of bookmark commands (set/unset/clear/list/info/resolve) as separate simulated processes over one bookmarks.json, with bitrot, kills and write errors; distinct_nontrivial counts distinct sequences of (operation kind, outcome) with >= 2 successful mutations."
	hist := []string{
		"klog's own parser is the observation channel for record-level oracles (C04) and validity (C05)",
		"oracles are permissive where the property is silent: duplicate dates, unsorted files, several leading @, style = any style in use, trailing blanks of a pause line",
		"write atomicity under crashes is observed (torn_states_reached) but not judged: no listed property states it",
	}
	for _, p := range []string{"C03", "C04", "C05", "C11", "C17", "C19"} {
		assumptions[p] = hist
	}
	// what the harness holds constant is where it is blind (learnt from seeded waves 8 and 9)
	constant := "held constant in every run (not explored): operating system linux/amd64 and its path rules; the user is root (permission bits never deny); locale and terminal (no TTY on stdin/stdout); no symbolic links; the editor / file-explorer / version-check commands are never launched; one klog process at a time except for the single edit by somebody else during `pause`; config keys other than those listed in the generators; the zone database is the one embedded in the harness"
	for _, p := range []string{"C03", "C04", "C05", "C06", "C07", "C11", "C17", "C19"} {
		assumptions[p] = append(append([]string{}, assumptions[p]...), constant)
	}
}
