package main

// Command sim: driver, worker, replay and self-tests of the klog simulation harness.
//
//	sim run -property C07 -tier quick        search; writes evidence; VIOLATION lines; exit 0/1/2
//	sim worker                               (internal) executes scenarios read from stdin
//	sim replay <file>                        re-executes a replay file in this fresh process
//	sim gen -property C07 -index 5           prints one generated scenario
//	sim selftest-determinism                 every seed twice, different processes / GOMAXPROCS
//
// Exit status: 0 property held, 1 violation, 2 harness/build/watchdog trouble.

import (
	"bufio"
	"encoding/json"
	"flag"
	"fmt"
	"os"
	"strconv"
	"strings"
	"syscall"
)

func envInt(name string, def int64) int64 {
	if v := os.Getenv(name); v != "" {
		if n, err := strconv.ParseInt(v, 10, 64); err == nil {
			return n
		}
	}
	return def
}

func main() {
	if len(os.Args) < 2 {
		fmt.Fprintln(os.Stderr, "usage: sim run|worker|replay|gen|selftest-determinism ...")
		os.Exit(2)
	}
	switch os.Args[1] {
	case "worker":
		workerMain()
	case "run":
		fs := flag.NewFlagSet("run", flag.ExitOnError)
		prop := fs.String("property", "", "property id")
		tier := fs.String("tier", "quick", "quick|thorough")
		seed := fs.Int64("seed", envInt("VERIF_SEED", 1), "seed")
		count := fs.Int("count", 0, "number of scenarios (0 = tier default)")
		from := fs.Int("from", 0, "first scenario index")
		evName := fs.String("evidence-name", "", "evidence file base name (default: the property id)")
		merge := fs.String("merge", "", "evidence file of a side run (e.g. the -race build) to embed")
		workers := fs.Int("workers", 0, "worker processes (0 = number of CPUs)")
		verif := fs.String("verif", "/verif", "verif root")
		instr := fs.String("instr-report", "", "instrumentation report to embed in the evidence")
		_ = fs.Parse(os.Args[2:])
		if *evName == "" && (*count != 0 || *from != 0) {
			// a hand-picked slice of the index space is a debugging run: it must not replace the evidence of a full check
			*evName = *prop + ".debug"
		}
		os.Exit(runDriver(*prop, *tier, *seed, *from, *count, *workers, *verif, *instr, *evName, *merge))
	case "replay":
		fs := flag.NewFlagSet("replay", flag.ExitOnError)
		verbose := fs.Bool("v", false, "print the event log")
		_ = fs.Parse(os.Args[2:])
		if fs.NArg() != 1 {
			fmt.Fprintln(os.Stderr, "usage: sim replay [-v] <file>")
			os.Exit(2)
		}
		os.Exit(replayMain(fs.Arg(0), *verbose))
	case "gen":
		fs := flag.NewFlagSet("gen", flag.ExitOnError)
		prop := fs.String("property", "", "property id")
		tier := fs.String("tier", "quick", "tier")
		seed := fs.Int64("seed", envInt("VERIF_SEED", 1), "seed")
		index := fs.Int("index", 0, "index")
		_ = fs.Parse(os.Args[2:])
		e := engines[propertyEngine[*prop]]
		if e == nil {
			fmt.Fprintln(os.Stderr, "unknown property")
			os.Exit(2)
		}
		b, _ := json.MarshalIndent(e.generate(*prop, *seed, *index, *tier), "", " ")
		fmt.Println(string(b))
	case "selftest-determinism":
		fs := flag.NewFlagSet("selftest", flag.ExitOnError)
		props := fs.String("properties", "C03,C04,C05,C06,C07,C11,C17,C19", "comma-separated")
		seeds := fs.Int("seeds", 64, "scenarios per property")
		seed := fs.Int64("seed", envInt("VERIF_SEED", 1), "seed")
		_ = fs.Parse(os.Args[2:])
		os.Exit(selftestDeterminism(strings.Split(*props, ","), *seeds, *seed))
	default:
		fmt.Fprintln(os.Stderr, "unknown subcommand", os.Args[1])
		os.Exit(2)
	}
}

// ---------------------------------------------------------------------------------------
// worker

type request struct {
	Gen      bool      `json:"gen,omitempty"`
	Property string    `json:"property,omitempty"`
	Seed     int64     `json:"seed,omitempty"`
	Index    int       `json:"index,omitempty"`
	Tier     string    `json:"tier,omitempty"`
	Scenario *Scenario `json:"scenario,omitempty"`
	WantLog  bool      `json:"want_log,omitempty"`
}

type response struct {
	Outcome *Outcome `json:"outcome"`
	Log     []string `json:"log,omitempty"`
}

func executeScenario(sc *Scenario) *Outcome {
	e := engines[sc.Engine]
	if e == nil {
		return &Outcome{Index: sc.Index, Error: "unknown engine " + sc.Engine}
	}
	o := e.execute(sc)
	if o.LogSHA256 == "" {
		o.finish()
	}
	return o
}

func workerMain() {
	// the protocol gets private copies of stdin/stdout; anything klog or a library prints
	// to the real stdout goes to stderr and cannot corrupt the protocol
	pin, _ := syscall.Dup(0)
	pout, _ := syscall.Dup(1)
	protoIn := os.NewFile(uintptr(pin), "proto-in")
	protoOut := os.NewFile(uintptr(pout), "proto-out")
	_ = syscall.Dup2(2, 1)
	os.Stdout = os.Stderr
	in := bufio.NewReaderSize(protoIn, 1<<20)
	out := bufio.NewWriter(protoOut)
	dec := json.NewDecoder(in)
	for {
		var req request
		if err := dec.Decode(&req); err != nil {
			return
		}
		sc := req.Scenario
		if req.Gen {
			e := engines[propertyEngine[req.Property]]
			if e == nil {
				fmt.Fprintln(os.Stderr, "worker: unknown property", req.Property)
				os.Exit(2)
			}
			sc = e.generate(req.Property, req.Seed, req.Index, req.Tier)
		}
		o := executeScenario(sc)
		resp := response{Outcome: o}
		if req.WantLog {
			resp.Log = o.Log
		}
		b, _ := json.Marshal(resp)
		out.Write(b)
		out.WriteByte('\n')
		out.Flush()
	}
}

// ---------------------------------------------------------------------------------------
// replay

func replayMain(path string, verbose bool) int {
	b, err := os.ReadFile(path)
	if err != nil {
		fmt.Fprintln(os.Stderr, "replay:", err)
		return 2
	}
	var sc Scenario
	if err := json.Unmarshal(b, &sc); err != nil {
		fmt.Fprintln(os.Stderr, "replay:", err)
		return 2
	}
	o := executeScenario(&sc)
	if verbose {
		for _, l := range o.Log {
			fmt.Println("  " + l)
		}
	}
	if o.Error != "" {
		fmt.Fprintln(os.Stderr, "replay: harness error:", o.Error)
		return 2
	}
	exp := sc.Expect
	var got *Verdict
	for i := range o.Verdicts {
		if exp == nil || o.Verdicts[i].Fingerprint == exp.Fingerprint {
			got = &o.Verdicts[i]
			break
		}
	}
	if got == nil && len(o.Verdicts) > 0 {
		got = &o.Verdicts[0]
	}
	if got == nil {
		fmt.Printf("REPLAY not reproduced: no violation (event log %s)\n", o.LogSHA256)
		return 0
	}
	hashMatch := exp != nil && exp.LogSHA256 == o.LogSHA256
	fpMatch := exp != nil && exp.Fingerprint == got.Fingerprint
	fmt.Printf("REPLAY reproduced fingerprint=%s fingerprint_match=%v event_log_match=%v\n  %s\n", got.Fingerprint, fpMatch, hashMatch, got.Detail)
	fmt.Printf("VIOLATION property=%s replay=%s\n", got.Property, path)
	return 1
}
