package main

// rot engine — C06: whatever storage and transfer faults make out of real files, no engine,
// schedule or command may crash or hang on it (DESIGN.md §5.4).

import (
	"fmt"
	"os"
	"path/filepath"
	"regexp"
	"strings"
	"time"

	"github.com/jotaen/klog/klog/parser"
)

type RotCase struct {
	ParCase
	Cmds    [][]string `json:"cmds"`
	Cpus    int        `json:"cpus"`
	Styled  bool       `json:"styled,omitempty"`
	Debug   bool       `json:"debug,omitempty"`
	NowUnix int64      `json:"now_unix"`
	Config  string     `json:"config_ini,omitempty"`
}

// bigNumberMarker: the recorded findings about unbounded durations are recognised by it (known_findings.json,
// "requires"), so that another defect surfacing at the same site on ordinary numbers is still reported.
var bigNumberRe = regexp.MustCompile(`\d{10,}`)

func bigNumberMarker(text string) string {
	if bigNumberRe.MatchString(text) {
		return " [the input holds a number of 10 or more digits]"
	}
	return ""
}

type rotEngine struct{}

func init() { engines["rot"] = rotEngine{} }

var rotCommands = [][]string{
	{"print"}, {"print", "--with-totals"}, {"print", "--sort=asc"}, {"print", "--no-style"},
	{"total"}, {"total", "--diff"}, {"total", "--now"}, {"total", "--today", "--now"}, {"total", "--tag=x"}, {"total", "--since=2024-03-10"},
	{"report"}, {"report", "--aggregate=week"}, {"report", "--aggregate=month", "--fill"}, {"report", "--aggregate=quarter", "--diff"},
	{"report", "--aggregate=year", "--decimal"}, {"report", "--fill", "--now"}, {"report", "--chart"}, {"report", "--fill"}, {"report", "--fill", "--aggregate=week"}, {"report", "--fill", "--aggregate=quarter"}, {"report", "--aggregate=year", "--fill"}, {"today", "--now"}, {"print", "--with-totals", "--sort=desc"}, {"total", "--this-year"}, {"total", "--last-week"}, {"report", "--period=9999"}, {"total", "--until=0000-01-05"},
	{"tags"}, {"tags", "--values"}, {"tags", "--count"}, {"tags", "--values", "--no-style"}, {"tags", "--values", "--count"}, {"report", "--no-style"}, {"today", "--no-style"}, {"print", "--with-totals", "--no-style"},
	{"today"}, {"today", "--diff", "--now"},
	{"json"}, {"json", "--pretty"}, {"json", "--now"},
	{"track", "1h30m #x"}, {"track", "--date=2024-03-13", "8:00 - 9:00"}, {"start"}, {"start", "--round=15m", "--summary=s"}, {"start", "--resume"},
	{"stop"}, {"stop", "--summary=done"}, {"switch", "--summary=next"}, {"create"}, {"create", "--should=8h!", "--summary=x"},
	{"pause"}, {"pause", "--extend"},
}

func (rotEngine) generate(property string, seed int64, index int, tier string) *Scenario {
	r := newRng(seed, "rot", property, fmt.Sprint(index))
	now := time.Date(2024, 3, 15, 12, 0, 0, 0, time.UTC).Add(time.Duration(r.Intn(86400)) * time.Second)
	docToday := now
	edge := ""
	if r.Chance(1, 12) {
		// records at the edges of the calendar (the parser accepts years 0000-9999)
		switch r.Intn(4) {
		case 0:
			docToday, edge = time.Date(9999, 12, 31, 12, 0, 0, 0, time.UTC), "+cal9999"
		case 1:
			docToday, edge = time.Date(0, 1, 1, 12, 0, 0, 0, time.UTC).AddDate(0, 0, r.Range(0, 20)), "+cal0000"
		case 2:
			docToday, edge = time.Date(r.Range(1990, 2030), 1, 1, 12, 0, 0, 0, time.UTC).AddDate(0, 0, r.Range(0, 3)), "+newyear"
		default:
			docToday, edge = time.Date(2024, 3, 1, 12, 0, 0, 0, time.UTC).AddDate(0, 0, r.Range(-1, 1)), "+leap"
		}
	}
	d := genDoc(r, docOpts{today: docToday, maxRecords: r.Pick2([]int{1, 2, 3, 5, 8}), wantOpen: r.Pick2([]int{0, 0, 1}), noFuture: edge == "+cal9999", noEarlier: edge == "+cal0000"})
	text := d.render()
	origin := "valid" + edge
	if edge != "" && r.Chance(1, 2) {
		// keep half of the calendar-edge documents undamaged: evaluation of accepted input
	} else if !r.Chance(1, 8) {
		nd := r.Pick2([]int{1, 1, 1, 2, 3})
		var kinds []string
		for i := 0; i < nd; i++ {
			k := damageKinds[r.Intn(len(damageKinds))]
			text = damage(r, text, k)
			kinds = append(kinds, k)
		}
		origin = "damaged:" + strings.Join(kinds, "+") + edge
	}
	if r.Chance(1, 15) {
		// what a torn write leaves: a prefix cut at an arbitrary byte
		text = text[:r.Intn(len(text)+1)]
		origin += "+torn"
	}
	n := r.Pick2([]int{2, 3, 4, 8, 16, len(text) / 2, len(text) + 1, r.Range(1, len(text)+2)})
	ctrlInCell := false
	if r.Chance(1, 40) {
		// control / escape sequences inside what ends up as the content of a table cell: a tag name or a (quoted) tag
		// value that ends in a complete or truncated ANSI sequence, rendered by the unstyled table commands
		ls := strings.SplitAfter(d.render(), "\n")
		var entryLines []int
		for i, l := range ls {
			if (strings.HasPrefix(l, " ") || strings.HasPrefix(l, "\t")) && strings.Trim(l, " \t\r\n") != "" {
				entryLines = append(entryLines, i)
			}
		}
		if len(entryLines) > 0 {
			i := entryLines[r.Intn(len(entryLines))]
			body := strings.TrimRight(ls[i], "\r\n")
			seq := r.Pick([]string{"\x1b[31", "\x1b[1;", "\x1b[", "\x1b[0m", "\x1b[38;5;1", "\x1b", "\x1b[31mred\x1b[0"})
			tag := r.Pick([]string{" #t=\"x" + seq + "\"", " #t=" + seq, " #t" + seq, " #t='" + seq + "'", " #t=\"" + seq})
			ls[i] = body + tag + ls[i][len(body):]
			text, origin = strings.Join(ls, ""), "valid+ctrl_in_cell"
			ctrlInCell = true
		}
	}
	if r.Chance(1, 60) {
		// a large file (70-300 KiB) and a realistic number of workers
		text, origin = largeDoc(r, 130) // (whole commands on it: klog needs seconds for 300 KiB, slow is not hung)
		n = r.Pick2([]int{2, 4, 8, 16})
	}
	if n < 1 {
		n = 1
	}
	if n > 400 {
		n = 400
	}
	rc := &RotCase{Cpus: r.Pick2([]int{1, 1, 2, 4, 16}), Styled: r.Chance(1, 3), Debug: r.Chance(1, 10), NowUnix: now.Unix()}
	rc.Origin = origin
	rc.Workers = n
	rc.Tape = r.Tape(3*n+8, 64)
	rc.setText(text)
	nc := r.Range(1, 3)
	for i := 0; i < nc; i++ {
		rc.Cmds = append(rc.Cmds, rotCommands[r.Intn(len(rotCommands))])
	}
	if r.Chance(1, 3) {
		// one more invocation with randomly drawn flags, values and spellings
		rc.Cmds = append(rc.Cmds, genEvalCommand(r))
	}
	if strings.HasPrefix(origin, "large:") {
		rc.Cmds = rc.Cmds[:1]
	}
	if ctrlInCell && origin == "valid+ctrl_in_cell" {
		rc.Cmds = append(rc.Cmds, r.Pick2Cmd([][]string{{"tags", "--values", "--no-style"}, {"tags", "--values", "--count"}, {"tags"}, {"report", "--no-style"}, {"today", "--no-style"}, {"print", "--with-totals", "--no-style"}, {"tags", "--values"}}))
	}
	if r.Chance(1, 5) {
		// a config file: other rendering and evaluation paths (colour schemes, formats, suppressed warnings)
		var ini []string
		if r.Chance(1, 2) {
			ini = append(ini, "colour_scheme = "+r.Pick([]string{"dark", "light", "basic", "no_colour"}))
		}
		if r.Chance(1, 3) {
			ini = append(ini, "no_warnings = "+r.Pick([]string{"UNCLOSED_OPEN_RANGE", "FUTURE_ENTRIES", "OVERLAPPING_RANGES", "MORE_THAN_24H", "UNCLOSED_OPEN_RANGE, MORE_THAN_24H", "OVERLAPPING_RANGES,FUTURE_ENTRIES"}))
		}
		if r.Chance(1, 3) {
			ini = append(ini, "date_format = "+r.Pick([]string{"YYYY-MM-DD", "YYYY/MM/DD"}))
		}
		if r.Chance(1, 3) {
			ini = append(ini, "time_convention = "+r.Pick([]string{"24h", "12h"}))
		}
		if r.Chance(1, 3) {
			ini = append(ini, "default_rounding = "+r.Pick([]string{"5m", "15m", "60m"}))
		}
		if r.Chance(1, 3) {
			ini = append(ini, "default_should_total = "+r.Pick([]string{"8h!", "30m!", "0m!", "-1h!"}))
		}
		rc.Config = strings.Join(ini, "\n") + "\n"
	}
	if r.Chance(1, 6) {
		// the damaged text arrives through a pipe, the default bookmark or a named bookmark (read-only commands)
		rc.Via = r.Pick([]string{"stdin", "stdin", "default", "bookmark"})
	}
	return &Scenario{Format: 1, Property: property, Engine: "rot", Seed: seed, Index: index, Tier: tier, Rot: rc}
}

func (rotEngine) execute(sc *Scenario) *Outcome {
	out := &Outcome{Index: sc.Index}
	rc := sc.Rot
	text := rc.text()
	out.Log = append(out.Log, fmt.Sprintf("rot text=%s n=%d", fnv(text), rc.Workers))

	// 1. serial parse, all accessors
	serial := parseSerialDump(text)
	out.Log = append(out.Log, "serial "+serial.hash())
	out.measure("texts", fnv(text))
	out.measure("parse_results", serial.hash())
	if serial.Panic != "" {
		out.Verdicts = append(out.Verdicts, mkVerdict("C06", "panic", serial.Site, "serial parse: "+serial.Panic+" on "+fmt.Sprintf("%q", shortText(text, 200)), 0))
	} else {
		switch {
		case serial.NilErrs && serial.NRecords != serial.NBlocks:
			out.Verdicts = append(out.Verdicts, mkVerdict("C06", "shape", "Parse", fmt.Sprintf("no errors but %d records and %d blocks", serial.NRecords, serial.NBlocks), 0))
		case !serial.NilErrs && (!serial.NilRecs || serial.NErrors < 1):
			out.Verdicts = append(out.Verdicts, mkVerdict("C06", "shape", "Parse", fmt.Sprintf("errors reported (%d) but records nil=%v", serial.NErrors, serial.NilRecs), 0))
		}
	}

	// 2. parallel parse under a seeded schedule
	var par ParseDump
	res := runProc(&ProcSpec{Tape: rc.Tape, Base: time.Unix(rc.NowUnix, 0).UTC(), Fn: func() (int, error) {
		rs, bs, es := parser.NewParallelParser(rc.Workers).Parse(text)
		par = buildParseDump(rs, bs, es)
		return 0, nil
	}})
	out.Procs++
	out.Log = append(out.Log, res.logLines()...)
	switch {
	case res.Crashed:
		out.Verdicts = append(out.Verdicts, mkVerdict("C06", "panic", res.PanicSite, fmt.Sprintf("parallel parse (%d workers): %s", rc.Workers, res.PanicValue), 0))
	case res.Hang:
		out.Verdicts = append(out.Verdicts, mkVerdict("C06", "deadlock", "Parse", fmt.Sprintf("parallel parse (%d workers) never finished", rc.Workers), 0))
	case serial.Panic == "":
		if rule, detail := serial.diff(&par); rule != "" {
			out.Foreign = append(out.Foreign, mkVerdict("C07", rule, "Parse", detail, 0))
		}
	}

	// 3. commands through the real klog.Run
	root, err := mkScratch("rot")
	if err != nil {
		out.Error = err.Error()
		return out
	}
	defer os.RemoveAll(root)
	file := filepath.Join(root, "a.klg")
	_ = os.MkdirAll(filepath.Join(root, "cfg"), 0o755)
	env := map[string]string{"KLOG_CONFIG_HOME": filepath.Join(root, "cfg")}
	if rc.Config != "" {
		_ = os.WriteFile(filepath.Join(root, "cfg", "config.ini"), []byte(rc.Config), 0o644)
		out.stat("with_config_file", 1)
	}
	if !rc.Styled {
		env["NO_COLOR"] = "1"
	}
	if rc.Debug {
		env["KLOG_DEBUG"] = "1"
	}
	spanDays := recordSpanDays(text)
	for ci, cmd := range rc.Cmds {
		if spanDays > 1500 && (containsArg(cmd, "--fill") || cmd[0] == "report" && containsArg(cmd, "-f")) {
			// `report --fill` costs time proportional to (and, in klog today, worse than linear in)
			// the number of days between the first and the last record; a bit flip in a year
			// digit makes that centuries. Slow is not hung: such cases are not run (bounded runs).
			out.stat("fill_skipped_large_span", 1)
			continue
		}
		_ = os.WriteFile(file, []byte(text), 0o644)
		argv, stdin, how := deliver(rc.Via, cmd, file, filepath.Join(root, "cfg"))
		out.stat("input_via_"+how, 1)
		spec := &ProcSpec{Argv: argv, Tape: rc.Tape, Cpus: rc.Cpus, Root: root, Env: env, Stdin: stdin, Base: time.Unix(rc.NowUnix, 0).UTC()}
		if cmd[0] == "pause" {
			spec.LongRun = true
			spec.Steps = []TimeStep{{AdvanceS: 61}, {JumpS: 3600}, {AdvanceS: 2}}
		}
		pr := runProc(spec)
		out.Procs++
		out.SimMillis += pr.ElapsedSim.Milliseconds()
		out.Log = append(out.Log, fmt.Sprintf("cmd %v", cmd))
		out.Log = append(out.Log, pr.logLines()...)
		site := cmd[0]
		switch {
		case pr.Crashed:
			out.Verdicts = append(out.Verdicts, mkVerdict("C06", "panic", pr.PanicSite, fmt.Sprintf("klog %s: %s%s", strings.Join(cmd, " "), pr.PanicValue, bigNumberMarker(text)), ci+1))
		case pr.Hang:
			out.Verdicts = append(out.Verdicts, mkVerdict("C06", "hang", site, fmt.Sprintf("klog %s did not finish", strings.Join(cmd, " ")), ci+1))
		case pr.ExitCode < 0 || pr.ExitCode > 125:
			out.Verdicts = append(out.Verdicts, mkVerdict("C06", "exit-code", site, fmt.Sprintf("klog %s: undocumented exit status %d", strings.Join(cmd, " "), pr.ExitCode), ci+1))
		case serial.Panic == "" && !serial.NilErrs && !pr.Failed && mutatingCmd[cmd[0]]:
			// an invalid file must never be evaluated or modified successfully
			out.Foreign = append(out.Foreign, mkVerdict("C05", "invalid-file-accepted", site, fmt.Sprintf("klog %s succeeded on a file the parser rejects", strings.Join(cmd, " ")), ci+1))
		}
		out.stat("cmd_"+cmd[0], 1)
		if pr.Failed {
			out.stat("cmd_failed", 1)
		} else {
			out.stat("cmd_succeeded", 1)
		}
	}

	base := strings.SplitN(rc.Origin, ":", 2)
	out.stat("origin_"+base[0], 1)
	if len(base) > 1 {
		for _, k := range strings.FieldsFunc(base[1], func(c rune) bool { return c == '+' }) {
			out.stat("damage_"+k, 1)
		}
	}
	if serial.Panic == "" {
		if serial.NilErrs {
			out.stat("texts_accepted", 1)
		} else {
			out.stat("texts_rejected", 1)
		}
	}
	if !strings.HasPrefix(rc.Origin, "valid") || strings.Contains(rc.Origin, "torn") {
		out.Distinct = append(out.Distinct, fnv(text))
	}
	if !strings.Contains(strings.ToValidUTF8(text, "\x00\x01"), "\x00\x01") {
		out.stat("valid_utf8", 1)
	} else {
		out.stat("invalid_utf8", 1)
	}
	if sc.Index%211 == 0 {
		out.Sample = map[string]any{"index": sc.Index, "origin": rc.Origin, "workers": rc.Workers, "cpus": rc.Cpus, "cmds": rc.Cmds,
			"text": shortText(text, 200), "parser_errors": serial.NErrors}
	}
	out.finish()
	return out
}

func (rotEngine) shrink(sc *Scenario) []*Scenario {
	var out []*Scenario
	rc := sc.Rot
	add := func(f func(c *RotCase)) {
		c := cloneScenario(sc)
		f(c.Rot)
		out = append(out, c)
	}
	if len(rc.Cmds) > 0 {
		add(func(c *RotCase) { c.Cmds = nil })
		for i := range rc.Cmds {
			i := i
			add(func(c *RotCase) { c.Cmds = [][]string{c.Cmds[i]} })
		}
	}
	if len(rc.Tape) > 0 {
		add(func(c *RotCase) { c.Tape = nil })
	}
	if rc.Workers > 2 {
		add(func(c *RotCase) { c.Workers = 2 })
		add(func(c *RotCase) { c.Workers /= 2 })
	}
	if rc.Cpus > 1 {
		add(func(c *RotCase) { c.Cpus = 1 })
	}
	if rc.Styled {
		add(func(c *RotCase) { c.Styled = false })
	}
	if rc.Debug {
		add(func(c *RotCase) { c.Debug = false })
	}
	if rc.Via != "" {
		add(func(c *RotCase) { c.Via = "" })
	}
	if rc.Config != "" {
		add(func(c *RotCase) { c.Config = "" })
	}
	for _, t := range shrinkText(rc.text()) {
		t := t
		add(func(c *RotCase) { c.setText(t) })
	}
	return out
}

var mutatingCmd = map[string]bool{"track": true, "start": true, "stop": true, "switch": true, "pause": true, "create": true}

// recordSpanDays: days between the earliest and the latest record of a text the parser accepts (0 otherwise).
func recordSpanDays(text string) int {
	ds := parseSerialDumpRecords(text)
	if len(ds) == 0 {
		return 0
	}
	lo, hi := 1<<60, -(1 << 60)
	for _, d := range ds {
		t := int(time.Date(d.Y, time.Month(d.M), d.D, 0, 0, 0, 0, time.UTC).Unix() / 86400)
		if t < lo {
			lo = t
		}
		if t > hi {
			hi = t
		}
	}
	return hi - lo
}
