package main

// The C04 reference model (DESIGN.md appendix A): records as plain data, operations as pure
// functions returning the SET of allowed outcomes (a set where the property is silent:
// duplicate dates, unsorted files). No klog code is used to compute an expected value.

import (
	"fmt"
	"regexp"
	"strings"
	"time"
)

type MEnt struct {
	Kind    string // duration | range | open
	Mins    int    // duration value
	Start   int    // minutes relative to the record's midnight
	End     int
	Summary []string
	Pause   *pauseExpect // set on the entry a pause command adds: compared by the pause rule
}

type pauseExpect struct {
	Given  []string // summary lines given on the command line
	Tags   []string // expected tags as "name=value" (lower-cased names), nil when --no-tags
	NoTags bool
}

type MRec struct {
	Y, M, D   int
	HasShould bool
	Should    int
	Summary   []string
	Entries   []MEnt
}

type MState []MRec

type MOutcome struct {
	Reject bool
	Why    string
	State  MState
	Target int // index of the affected record in State (for style oracles), -1 if none
	IsNew  bool
}

func dateKey(y, m, d int) int { return y*10000 + m*100 + d }

func (r *MRec) key() int { return dateKey(r.Y, r.M, r.D) }

func normSummary(s []string) []string {
	if len(s) == 0 {
		return []string{""}
	}
	return append([]string{}, s...)
}

func stateFromDump(ds []DRecord) MState {
	st := make(MState, 0, len(ds))
	for _, d := range ds {
		r := MRec{Y: d.Y, M: d.M, D: d.D, HasShould: d.HasShould, Should: d.Should, Summary: append([]string{}, d.Summary...)}
		for _, e := range d.Entries {
			me := MEnt{Kind: e.Kind, Summary: normSummary(e.Summary)}
			switch e.Kind {
			case "duration":
				me.Mins = e.Mins
			case "range":
				me.Start, me.End = e.Start.Mins, e.End.Mins
			case "open":
				me.Start = e.Start.Mins
			}
			r.Entries = append(r.Entries, me)
		}
		st = append(st, r)
	}
	return st
}

func (s MState) clone() MState {
	out := make(MState, len(s))
	for i, r := range s {
		c := r
		c.Summary = append([]string{}, r.Summary...)
		c.Entries = make([]MEnt, len(r.Entries))
		for j, e := range r.Entries {
			ce := e
			ce.Summary = append([]string{}, e.Summary...)
			c.Entries[j] = ce
		}
		out[i] = c
	}
	return out
}

func (r *MRec) openIndex() int {
	idx := -1
	for i, e := range r.Entries {
		if e.Kind == "open" {
			idx = i
		}
	}
	return idx
}

// ---------------------------------------------------------------------------------------
// comparison

var tagRe = regexp.MustCompile(`#([\p{L}\d_-]+)(=("[^"]*"|'[^']*'|[\p{L}\d_-]*))?`)

// tagsOf extracts the spec's tags of the given lines as "name" or "name=value", names lower-cased.
func tagsOf(lines []string) []string {
	var out []string
	for _, l := range lines {
		for _, m := range tagRe.FindAllStringSubmatch(l, -1) {
			name := strings.ToLower(m[1])
			val := m[3]
			if len(val) >= 2 && (val[0] == '"' || val[0] == '\'') {
				val = val[1 : len(val)-1]
			}
			if val != "" {
				out = append(out, name+"="+val)
			} else {
				out = append(out, name)
			}
		}
	}
	return out
}

func sameStrings(a, b []string) bool {
	if len(a) != len(b) {
		return false
	}
	for i := range a {
		if a[i] != b[i] {
			return false
		}
	}
	return true
}

// pauseSummaryOK: observed summary of a pause entry against what the command must have produced.
func pauseSummaryOK(p *pauseExpect, obs []string) bool {
	given := normSummary(p.Given)
	obs = normSummary(obs)
	if len(obs) != len(given) {
		return false
	}
	last := len(given) - 1
	for i := 0; i < last; i++ {
		if obs[i] != given[i] {
			return false
		}
	}
	if !strings.HasPrefix(obs[last], given[last]) {
		return false
	}
	rest := obs[last][len(given[last]):]
	trimmed := strings.Trim(rest, " \t")
	if p.NoTags || len(p.Tags) == 0 {
		return trimmed == ""
	}
	// the rest must consist of the tags only, separated from the given text by a blank
	if given[last] != "" && !strings.HasPrefix(rest, " ") {
		return false
	}
	withoutTags := strings.Trim(tagRe.ReplaceAllString(trimmed, ""), " \t")
	if withoutTags != "" {
		return false
	}
	return sameStrings(tagsOf([]string{trimmed}), p.Tags)
}

func entEqual(exp, obs *MEnt) bool {
	if exp.Kind != obs.Kind {
		return false
	}
	switch exp.Kind {
	case "duration":
		if exp.Mins != obs.Mins {
			return false
		}
	case "range":
		if exp.Start != obs.Start || exp.End != obs.End {
			return false
		}
	case "open":
		if exp.Start != obs.Start {
			return false
		}
	}
	if exp.Pause != nil {
		return pauseSummaryOK(exp.Pause, obs.Summary)
	}
	return sameStrings(normSummary(exp.Summary), normSummary(obs.Summary))
}

func recEqual(exp, obs *MRec) bool {
	if exp.Y != obs.Y || exp.M != obs.M || exp.D != obs.D || exp.HasShould != obs.HasShould || exp.Should != obs.Should {
		return false
	}
	if !sameStrings(exp.Summary, obs.Summary) || len(exp.Entries) != len(obs.Entries) {
		return false
	}
	for i := range exp.Entries {
		if !entEqual(&exp.Entries[i], &obs.Entries[i]) {
			return false
		}
	}
	return true
}

func stateEqual(exp, obs MState) bool {
	if len(exp) != len(obs) {
		return false
	}
	for i := range exp {
		if !recEqual(&exp[i], &obs[i]) {
			return false
		}
	}
	return true
}

func (e *MEnt) String() string {
	switch e.Kind {
	case "duration":
		return fmt.Sprintf("dur(%d)%q", e.Mins, e.Summary)
	case "range":
		return fmt.Sprintf("range(%d..%d)%q", e.Start, e.End, e.Summary)
	}
	return fmt.Sprintf("open(%d)%q", e.Start, e.Summary)
}

func (r *MRec) String() string {
	var es []string
	for i := range r.Entries {
		es = append(es, r.Entries[i].String())
	}
	sh := ""
	if r.HasShould {
		sh = fmt.Sprintf(" should=%d", r.Should)
	}
	return fmt.Sprintf("%04d-%02d-%02d%s %q [%s]", r.Y, r.M, r.D, sh, r.Summary, strings.Join(es, ", "))
}

func (s MState) String() string {
	var rs []string
	for i := range s {
		rs = append(rs, s[i].String())
	}
	return strings.Join(rs, " ; ")
}

// ---------------------------------------------------------------------------------------
// clock rules (also the C17 oracle)

// roundMinutes rounds to the nearest multiple of r, ties up.
func roundMinutes(m, r int) int {
	if r <= 0 {
		return m
	}
	return ((2*m + r) / (2 * r)) * r
}

func civil(t time.Time) (int, int, int) { return t.Year(), int(t.Month()), t.Day() }

func addDays(y, m, d, n int) (int, int, int) {
	t := time.Date(y, time.Month(m), d+n, 12, 0, 0, 0, time.UTC)
	return t.Year(), int(t.Month()), t.Day()
}

// dateRepresentable: klog dates live in years 0000-9999.
func dateRepresentable(y int) bool { return y >= 0 && y <= 9999 }

type opClock struct {
	now        time.Time
	ty, tm, td int // today
}

func mkClock(now time.Time) opClock {
	y, m, d := civil(now)
	return opClock{now: now, ty: y, tm: m, td: d}
}

// targetDate resolves the date selection of an operation.
func (c opClock) targetDate(a *OpArgs) (int, int, int) {
	switch a.DateSel {
	case "explicit":
		return a.DY, a.DM, a.DD
	case "yesterday":
		return addDays(c.ty, c.tm, c.td, -1)
	case "tomorrow":
		return addDays(c.ty, c.tm, c.td, 1)
	}
	return c.ty, c.tm, c.td
}

// targetTime resolves the time of start/stop/switch relative to the target date.
// ok=false means the command must fail (no time for a far date, or not representable).
func (c opClock) targetTime(a *OpArgs, w *World, y, m, d int) (int, bool, string) {
	if a.Time != nil {
		return a.Time.Mins, true, ""
	}
	mnow := c.now.Hour()*60 + c.now.Minute()
	r := a.Round
	if r == 0 {
		r = w.CfgRounding
	}
	mr := roundMinutes(mnow, r)
	var t int
	switch dateKey(y, m, d) {
	case dateKey(c.ty, c.tm, c.td):
		t = mr
	case dateKey(addDays(c.ty, c.tm, c.td, -1)):
		t = mr + 1440
	case dateKey(addDays(c.ty, c.tm, c.td, 1)):
		t = mr - 1440
	default:
		return 0, false, "no time given for a date that is not today±1"
	}
	if t < -1440 || t >= 2880 {
		return 0, false, "time not representable relative to the target date"
	}
	return t, true, ""
}

// ---------------------------------------------------------------------------------------
// operations

func (s MState) candidates(key int) []int {
	var out []int
	for i := range s {
		if s[i].key() == key {
			out = append(out, i)
		}
	}
	return out
}

func (s MState) sorted() bool {
	for i := 1; i < len(s); i++ {
		if s[i].key() < s[i-1].key() {
			return false
		}
	}
	return true
}

// insertPositions: where a new record of the given date may be placed.
func (s MState) insertPositions(key int) []int {
	if s.sorted() {
		pos := 0
		for i := range s {
			if s[i].key() <= key {
				pos = i + 1
			}
		}
		return []int{pos}
	}
	out := make([]int, 0, len(s)+1)
	for i := 0; i <= len(s); i++ {
		out = append(out, i)
	}
	return out
}

func (s MState) withInserted(pos int, r MRec) MState {
	c := s.clone()
	out := append(MState{}, c[:pos]...)
	out = append(out, r)
	out = append(out, c[pos:]...)
	return out
}

type modelCtx struct {
	w   *World
	clk opClock
	// openTrailingBlank: some open range's line in the file ends with exactly one blank after the placeholder
	// (a partial write can cut a line there). The parser reads that blank as the delimiter of an empty summary;
	// text appended by `stop --summary` then starts with a blank of its own. The properties do not speak about
	// that blank: both readings are allowed, for such files only.
	openTrailingBlank bool
}

var openTrailingBlankRe = regexp.MustCompile(`(?m)^[ \t]+\S.*\?[ \t]\r?$`)

func reject(why string) []MOutcome { return []MOutcome{{Reject: true, Why: why, Target: -1}} }

// withTargets calls f for every allowed target record: each existing record of the date, or,
// when there is none and creation is allowed, a new record at each allowed position.
func (mc *modelCtx) withTargets(prev MState, y, m, d int, create bool, should *int, f func(st MState, idx int, isNew bool) []MOutcome) []MOutcome {
	key := dateKey(y, m, d)
	cands := prev.candidates(key)
	var out []MOutcome
	if len(cands) > 0 {
		for _, idx := range cands {
			out = append(out, f(prev.clone(), idx, false)...)
		}
		return out
	}
	if !create {
		return nil
	}
	if !dateRepresentable(y) {
		return reject("date not representable")
	}
	nr := MRec{Y: y, M: m, D: d}
	if should != nil {
		nr.HasShould = true
		nr.Should = *should
	}
	for _, pos := range prev.insertPositions(key) {
		st := prev.withInserted(pos, nr)
		out = append(out, f(st, pos, true)...)
	}
	return out
}

func (mc *modelCtx) cfgShould() *int {
	if mc.w.CfgShould != "" {
		v := mc.w.CfgShouldMins
		return &v
	}
	return nil
}

// resumeSummaries returns the allowed summaries for --resume/--resume-nth/--summary on a
// start-like operation targeting record idx of st. prevState is the state used for the
// previous-record fall-back (nil for switch).
func (mc *modelCtx) startSummaries(a *OpArgs, st MState, idx int, fallback bool) ([][]string, string) {
	if a.Summary != nil && (a.Resume || a.ResumeNth != 0) {
		return nil, "--summary conflicts with --resume"
	}
	if a.Resume && a.ResumeNth != 0 {
		return nil, "--resume conflicts with --resume-nth"
	}
	if a.Summary != nil {
		return [][]string{normSummary(a.Summary)}, ""
	}
	rec := &st[idx]
	if a.Resume {
		if n := len(rec.Entries); n > 0 {
			return [][]string{normSummary(rec.Entries[n-1].Summary)}, ""
		}
		if fallback {
			// the record(s) with the greatest date before the target's
			best := -1
			for i := range st {
				if st[i].key() < rec.key() && (best == -1 || st[i].key() > best) {
					best = st[i].key()
				}
			}
			if best != -1 {
				var outs [][]string
				for i := range st {
					if st[i].key() == best {
						if n := len(st[i].Entries); n > 0 {
							outs = append(outs, normSummary(st[i].Entries[n-1].Summary))
						} else {
							outs = append(outs, []string{""})
						}
					}
				}
				return outs, ""
			}
		}
		return [][]string{{""}}, ""
	}
	if a.ResumeNth != 0 {
		n := len(rec.Entries)
		i := a.ResumeNth - 1
		if a.ResumeNth < 0 {
			i = n + a.ResumeNth
		}
		if i < 0 || i >= n {
			return nil, "no such entry to resume"
		}
		return [][]string{normSummary(rec.Entries[i].Summary)}, ""
	}
	return [][]string{{""}}, ""
}

func (mc *modelCtx) apply(prev MState, op *Op) []MOutcome {
	a := &op.Args
	if a.Invalid {
		return reject("argument that would yield an invalid file")
	}
	y, m, d := mc.clk.targetDate(a)
	switch op.Kind {
	case "track":
		e := a.Entry
		if e == nil || e.Kind == "invalid" {
			return reject("text is not an entry")
		}
		return mc.withTargets(prev, y, m, d, true, mc.cfgShould(), func(st MState, idx int, isNew bool) []MOutcome {
			if e.Kind == "open" && st[idx].openIndex() != -1 {
				return reject("second open range")
			}
			ne := MEnt{Kind: e.Kind, Mins: e.Mins, Start: e.Start, End: e.End, Summary: normSummary(e.Summary)}
			st[idx].Entries = append(st[idx].Entries, ne)
			return []MOutcome{{State: st, Target: idx, IsNew: isNew}}
		})

	case "create":
		if !dateRepresentable(y) {
			return reject("date not representable")
		}
		nr := MRec{Y: y, M: m, D: d, Summary: append([]string{}, a.Summary...)}
		if a.Should != "" {
			nr.HasShould, nr.Should = true, a.ShouldMins
		} else if s := mc.cfgShould(); s != nil {
			nr.HasShould, nr.Should = true, *s
		}
		var out []MOutcome
		for _, pos := range prev.insertPositions(dateKey(y, m, d)) {
			out = append(out, MOutcome{State: prev.withInserted(pos, nr), Target: pos, IsNew: true})
		}
		return out

	case "start":
		t, ok, why := mc.clk.targetTime(a, mc.w, y, m, d)
		if !ok {
			return reject(why)
		}
		return mc.withTargets(prev, y, m, d, true, mc.cfgShould(), func(st MState, idx int, isNew bool) []MOutcome {
			sums, why := mc.startSummaries(a, st, idx, true)
			if why != "" {
				return reject(why)
			}
			if st[idx].openIndex() != -1 {
				return reject("second open range")
			}
			var out []MOutcome
			for _, s := range sums {
				c := st.clone()
				c[idx].Entries = append(c[idx].Entries, MEnt{Kind: "open", Start: t, Summary: s})
				out = append(out, MOutcome{State: c, Target: idx, IsNew: isNew})
			}
			return out
		})

	case "stop":
		t, ok, why := mc.clk.targetTime(a, mc.w, y, m, d)
		if !ok {
			return reject(why)
		}
		closeAt := func(tt int) func(st MState, idx int, isNew bool) []MOutcome {
			return func(st MState, idx int, _ bool) []MOutcome {
				oi := st[idx].openIndex()
				if oi == -1 {
					return reject("nothing to stop")
				}
				e := &st[idx].Entries[oi]
				if tt < e.Start {
					return reject("end before start")
				}
				e.Kind, e.End = "range", tt
				bare := len(normSummary(e.Summary)) == 1 && normSummary(e.Summary)[0] == ""
				e.Summary = appendSummary(e.Summary, a.Summary)
				outs := []MOutcome{{State: st, Target: idx}}
				if mc.openTrailingBlank && bare && len(a.Summary) > 0 && a.Summary[0] != "" {
					alt := st.clone()
					as := append([]string{}, alt[idx].Entries[oi].Summary...)
					as[0] = " " + as[0]
					alt[idx].Entries[oi].Summary = as
					outs = append(outs, MOutcome{State: alt, Target: idx})
				}
				return outs
			}
		}
		if out := mc.withTargets(prev, y, m, d, false, nil, closeAt(t)); out != nil {
			return out
		}
		automatic := a.DateSel != "explicit" && a.Time == nil
		if !automatic {
			return reject("no record at that date")
		}
		py, pm, pd := addDays(y, m, d, -1)
		isToday := dateKey(y, m, d) == dateKey(mc.clk.ty, mc.clk.tm, mc.clk.td)
		var out []MOutcome
		if t+1440 < 2880 {
			out = mc.withTargets(prev, py, pm, pd, false, nil, closeAt(t+1440))
		} else if len(prev.candidates(dateKey(py, pm, pd))) > 0 {
			out = reject("time not representable relative to the previous day's record")
		}
		if out == nil {
			return reject("no record to stop")
		}
		if !isToday {
			// the property defines the fall-back only for today's record; with --yesterday /
			// --tomorrow either behaviour (refusal or fall-back) is accepted
			out = append(out, reject("no record at the selected date")...)
		}
		return out

	case "switch":
		t, ok, why := mc.clk.targetTime(a, mc.w, y, m, d)
		if !ok {
			return reject(why)
		}
		out := mc.withTargets(prev, y, m, d, false, nil, func(st MState, idx int, _ bool) []MOutcome {
			oi := st[idx].openIndex()
			if oi == -1 {
				return reject("nothing to stop")
			}
			e := &st[idx].Entries[oi]
			if t < e.Start {
				return reject("end before start")
			}
			e.Kind, e.End = "range", t
			sums, why := mc.startSummaries(a, st, idx, false)
			if why != "" {
				return reject(why)
			}
			var out []MOutcome
			for _, s := range sums {
				c := st.clone()
				c[idx].Entries = append(c[idx].Entries, MEnt{Kind: "open", Start: t, Summary: s})
				out = append(out, MOutcome{State: c, Target: idx})
			}
			return out
		})
		if out == nil {
			return reject("no record at that date")
		}
		return out
	}
	return nil
}

// appendSummary: stop --summary appends to the entry's last summary line.
func appendSummary(cur, add []string) []string {
	cur = normSummary(cur)
	if len(add) == 0 {
		return cur
	}
	last := len(cur) - 1
	if add[0] != "" {
		if cur[last] == "" {
			cur[last] = add[0]
		} else {
			cur[last] = cur[last] + " " + add[0]
		}
	}
	return append(cur, add[1:]...)
}

// applyPause: the state after `klog pause` whose clock readings were t0 (after the initial
// step) and ticks. today is the date of the first reading of the process.
// Returns the allowed outcomes; `partial` additionally lists every intermediate state
// (for processes that were killed).
func (mc *modelCtx) applyPause(prev MState, op *Op, t0 time.Time, ticks []time.Time) (final []MOutcome, partial []MState) {
	a := &op.Args
	if a.Invalid {
		return reject("argument that would yield an invalid file"), nil
	}
	if a.Extend && a.Summary != nil {
		return reject("--extend conflicts with --summary"), nil
	}
	ty, tm, td := mc.clk.ty, mc.clk.tm, mc.clk.td
	run := func(st MState, idx int, _ bool) []MOutcome {
		oi := st[idx].openIndex()
		if oi == -1 {
			return reject("nothing to pause")
		}
		rec := &st[idx]
		pi := -1
		if a.Extend {
			for i, e := range rec.Entries {
				if e.Kind == "duration" && e.Mins <= 0 {
					pi = i
				}
			}
			if pi == -1 {
				return reject("no pause to extend")
			}
		} else {
			pe := &pauseExpect{Given: a.Summary, NoTags: a.NoTags}
			if !a.NoTags {
				pe.Tags = tagsOf(rec.Entries[oi].Summary)
			}
			rec.Entries = append(rec.Entries, MEnt{Kind: "duration", Mins: 0, Summary: normSummary(a.Summary), Pause: pe})
			pi = len(rec.Entries) - 1
		}
		initial := rec.Entries[pi].Mins
		partial = append(partial, st.clone())
		hw := 0
		for _, tk := range ticks {
			diff := int(tk.Unix()-t0.Unix()) / 60
			if diff > hw {
				hw = diff
				c := st.clone()
				c[idx].Entries[pi].Mins = initial - hw
				partial = append(partial, c)
			}
		}
		rec.Entries[pi].Mins = initial - hw
		return []MOutcome{{State: st, Target: idx}}
	}
	if out := mc.withTargets(prev, ty, tm, td, false, nil, run); out != nil {
		return out, partial
	}
	py, pm, pd := addDays(ty, tm, td, -1)
	if out := mc.withTargets(prev, py, pm, pd, false, nil, run); out != nil {
		return out, partial
	}
	return reject("no record for today or yesterday"), nil
}
