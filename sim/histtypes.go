package main

import (
	"encoding/base64"
	"fmt"
	"strings"

	"github.com/jotaen/klog/klog/verifsim"
)

// HistCase: a world (disk, clock, config) and a history of operations against it.
type HistCase struct {
	Focus string `json:"focus"` // the property this scenario is biased towards
	World World  `json:"world"`
	Ops   []Op   `json:"ops"`
}

type World struct {
	BaseUnix      int64             `json:"base_unix"`
	ZoneMin       int               `json:"zone_offset_min"`
	ZoneName      string            `json:"zone_name,omitempty"` // a zone with daylight saving time (overrides the fixed offset)
	Cpus          int               `json:"cpus"`
	Env           map[string]string `json:"env,omitempty"`
	ConfigIni     string            `json:"config_ini,omitempty"`
	Files         map[string]string `json:"files_b64"` // name -> base64 bytes
	FilePreviews  map[string]string `json:"files_preview,omitempty"`
	DefaultTarget string            `json:"default_bookmark,omitempty"` // file name the default bookmark points to
	// config as structured knowledge for the oracles
	CfgRounding   int    `json:"cfg_rounding,omitempty"`
	CfgShould     string `json:"cfg_should,omitempty"` // e.g. "8h"
	CfgShouldMins int    `json:"cfg_should_mins,omitempty"`
	CfgDateFormat string `json:"cfg_date_format,omitempty"`     // "YYYY-MM-DD" | "YYYY/MM/DD"
	CfgTimeConv   string `json:"cfg_time_convention,omitempty"` // "24h" | "12h"
}

func (w *World) setFile(name, content string) {
	if w.Files == nil {
		w.Files = map[string]string{}
		w.FilePreviews = map[string]string{}
	}
	w.Files[name] = base64.StdEncoding.EncodeToString([]byte(content))
	w.FilePreviews[name] = shortText(content, 400)
}

func (w *World) file(name string) string {
	b, _ := base64.StdEncoding.DecodeString(w.Files[name])
	return string(b)
}

// TimeSpec is a time of day as typed on the command line.
type TimeSpec struct {
	Text string `json:"text"` // e.g. "9:00", "1:15pm", "<23:00", "0:30>"
	Mins int    `json:"mins"` // minutes relative to midnight of the record's date
}

// EntrySpec is the structured form of a `track` argument.
type EntrySpec struct {
	Kind    string   `json:"kind"` // duration | range | open | invalid
	Value   string   `json:"value"`
	Mins    int      `json:"mins,omitempty"`
	Start   int      `json:"start,omitempty"`
	End     int      `json:"end,omitempty"`
	Summary []string `json:"summary,omitempty"` // Summary[0] goes on the value line
}

type OpArgs struct {
	DateSel    string     `json:"date_sel,omitempty"` // "", today, yesterday, tomorrow, explicit
	Date       string     `json:"date,omitempty"`     // explicit date as typed
	DY, DM, DD int        `json:",omitempty"`
	Time       *TimeSpec  `json:"time,omitempty"`
	Round      int        `json:"round,omitempty"`
	Summary    []string   `json:"summary,omitempty"`
	Resume     bool       `json:"resume,omitempty"`
	ResumeNth  int        `json:"resume_nth,omitempty"`
	Entry      *EntrySpec `json:"entry,omitempty"`
	Should     string     `json:"should,omitempty"`
	ShouldMins int        `json:"should_mins,omitempty"`
	NoTags     bool       `json:"no_tags,omitempty"`
	Extend     bool       `json:"extend,omitempty"`
	Invalid    bool       `json:"invalid,omitempty"` // an argument klog must refuse (it would yield an invalid file)
	Why        string     `json:"why,omitempty"` // what this operation was built to exercise
}

// EditFault changes a file between two commands.
type EditFault struct {
	Kind   string `json:"kind"` // user_edit | bitrot | remove | mkdir
	File   string `json:"file"`
	NewB64 string `json:"new_b64,omitempty"`
	Damage string `json:"damage,omitempty"`
}

type Op struct {
	Kind     string             `json:"kind"` // track start stop switch pause create | print total json ... (read-only)
	File     string             `json:"file"` // a.klg | b.klg | "" (default bookmark) | @name | missing.klg | adir
	Args     OpArgs             `json:"args"`
	Argv     []string           `json:"argv"`
	Tape     []int              `json:"tape,omitempty"`
	MapTape  []int              `json:"map_tape,omitempty"`
	MapOrder bool               `json:"map_order,omitempty"`
	Plan     verifsim.FaultPlan `json:"plan"`
	Steps    []TimeStep         `json:"steps,omitempty"`
	GapS     int                `json:"gap_s,omitempty"`  // time passing before this command
	JumpS    int                `json:"jump_s,omitempty"` // clock step before this command
	Edit     *EditFault         `json:"edit,omitempty"`   // applied before this command
	Cpus     int                `json:"cpus,omitempty"`
	Stdin    string             `json:"stdin,omitempty"`
}

func (o *Op) mutating() bool { return mutatingCmd[o.Kind] }

func joinLines(ls []string) string { return strings.Join(ls, `\n`) }

// renderArgv builds the command line. The file argument is a placeholder resolved by the executor.
func (o *Op) renderArgv() {
	a := []string{o.Kind}
	ar := &o.Args
	switch ar.DateSel {
	case "today":
		a = append(a, "--today")
	case "yesterday":
		a = append(a, "--yesterday")
	case "tomorrow":
		a = append(a, "--tomorrow")
	case "explicit":
		a = append(a, "--date="+ar.Date)
	}
	if ar.Time != nil {
		a = append(a, "--time="+ar.Time.Text)
	}
	if ar.Round != 0 {
		a = append(a, fmt.Sprintf("--round=%dm", ar.Round))
	}
	if ar.Summary != nil {
		a = append(a, "--summary="+joinLines(ar.Summary))
	}
	if ar.Resume {
		a = append(a, "--resume")
	}
	if ar.ResumeNth != 0 {
		a = append(a, fmt.Sprintf("--resume-nth=%d", ar.ResumeNth))
	}
	if ar.Should != "" {
		a = append(a, "--should="+ar.Should)
	}
	if ar.NoTags {
		a = append(a, "--no-tags")
	}
	if ar.Extend {
		a = append(a, "--extend")
	}
	if ar.Entry != nil {
		text := ar.Entry.Value
		if len(ar.Entry.Summary) > 0 {
			if ar.Entry.Summary[0] != "" {
				if text != "" {
					text += " "
				}
				text += ar.Entry.Summary[0]
			}
			for _, l := range ar.Entry.Summary[1:] {
				text += `\n` + l
			}
		}
		if strings.HasPrefix(text, "-") {
			text = `\` + text // documented escape for negative durations
		}
		a = append(a, text)
	}
	switch o.File {
	case "":
	default:
		a = append(a, "$FILE:"+o.File)
	}
	o.Argv = a
}

// resolveArgv replaces the file placeholder.
func resolveArgv(argv []string, root string) []string {
	out := make([]string, len(argv))
	for i, a := range argv {
		if strings.HasPrefix(a, "$FILE:") {
			name := strings.TrimPrefix(a, "$FILE:")
			if strings.HasPrefix(name, "@") {
				out[i] = name
			} else {
				out[i] = root + "/" + name
			}
		} else {
			out[i] = a
		}
	}
	return out
}
