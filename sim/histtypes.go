package main

import (
	"encoding/base64"
	"fmt"
	"strings"

	"github.com/jotaen/klog/klog/verifsim"
)

// HistCase: a world (disk, clock, config) and a history of operations against it.
type HistCase struct {
	Focus string `json:"focus"` // the property this scenario is biased towards
	World World  `json:"world"`
	Ops   []Op   `json:"ops"`
}

type World struct {
	BaseUnix      int64             `json:"base_unix"`
	ZoneMin       int               `json:"zone_offset_min"`
	ZoneName      string            `json:"zone_name,omitempty"` // a zone with daylight saving time (overrides the fixed offset)
	Cpus          int               `json:"cpus"`
	Env           map[string]string `json:"env,omitempty"`
	ConfigIni     string            `json:"config_ini,omitempty"`
	Files         map[string]string `json:"files_b64"` // name -> base64 bytes
	FilePreviews  map[string]string `json:"files_preview,omitempty"`
	DefaultTarget string            `json:"default_bookmark,omitempty"` // file name the default bookmark points to
	// config as structured knowledge for the oracles
	CfgRounding   int    `json:"cfg_rounding,omitempty"`
	CfgShould     string `json:"cfg_should,omitempty"` // e.g. "8h"
	CfgShouldMins int    `json:"cfg_should_mins,omitempty"`
	CfgDateFormat string `json:"cfg_date_format,omitempty"`     // "YYYY-MM-DD" | "YYYY/MM/DD"
	CfgTimeConv   string `json:"cfg_time_convention,omitempty"` // "24h" | "12h"
}

func (w *World) setFile(name, content string) {
	if w.Files == nil {
		w.Files = map[string]string{}
		w.FilePreviews = map[string]string{}
	}
	w.Files[name] = base64.StdEncoding.EncodeToString([]byte(content))
	w.FilePreviews[name] = shortText(content, 400)
}

func (w *World) file(name string) string {
	b, _ := base64.StdEncoding.DecodeString(w.Files[name])
	return string(b)
}

// TimeSpec is a time of day as typed on the command line.
type TimeSpec struct {
	Text string `json:"text"` // e.g. "9:00", "1:15pm", "<23:00", "0:30>"
	Mins int    `json:"mins"` // minutes relative to midnight of the record's date
}

// EntrySpec is the structured form of a `track` argument.
type EntrySpec struct {
	Kind    string   `json:"kind"` // duration | range | open | invalid
	Value   string   `json:"value"`
	Mins    int      `json:"mins,omitempty"`
	Start   int      `json:"start,omitempty"`
	End     int      `json:"end,omitempty"`
	Summary []string `json:"summary,omitempty"` // Summary[0] goes on the value line
}

type OpArgs struct {
	DateSel    string     `json:"date_sel,omitempty"` // "", today, yesterday, tomorrow, explicit
	Date       string     `json:"date,omitempty"`     // explicit date as typed
	DY, DM, DD int        `json:",omitempty"`
	Time       *TimeSpec  `json:"time,omitempty"`
	Round      int        `json:"round,omitempty"`
	Summary    []string   `json:"summary,omitempty"`
	Resume     bool       `json:"resume,omitempty"`
	ResumeNth  int        `json:"resume_nth,omitempty"`
	Entry      *EntrySpec `json:"entry,omitempty"`
	Should     string     `json:"should,omitempty"`
	ShouldMins int        `json:"should_mins,omitempty"`
	NoTags     bool       `json:"no_tags,omitempty"`
	Extend     bool       `json:"extend,omitempty"`
	Invalid    bool       `json:"invalid,omitempty"` // an argument klog must refuse (it would yield an invalid file)
	Why        string     `json:"why,omitempty"`     // what this operation was built to exercise
}

// EditFault changes a file between two commands.
type EditFault struct {
	Kind   string `json:"kind"` // user_edit | bitrot | remove | mkdir
	File   string `json:"file"`
	NewB64 string `json:"new_b64,omitempty"`
	Damage string `json:"damage,omitempty"`
}

type Op struct {
	Kind      string             `json:"kind"` // track start stop switch pause create | print total json ... (read-only)
	File      string             `json:"file"` // a.klg | b.klg | "" (default bookmark) | @name | missing.klg | adir
	Args      OpArgs             `json:"args"`
	Argv      []string           `json:"argv"`
	ArgForm   int                `json:"arg_form,omitempty"` // spelling of the command line, see renderArgv
	Tape      []int              `json:"tape,omitempty"`
	MapTape   []int              `json:"map_tape,omitempty"`
	MapOrder  bool               `json:"map_order,omitempty"`
	Plan      verifsim.FaultPlan `json:"plan"`
	Steps     []TimeStep         `json:"steps,omitempty"`
	GapS      int                `json:"gap_s,omitempty"`      // time passing before this command
	JumpS     int                `json:"jump_s,omitempty"`     // clock step before this command
	Edit      *EditFault         `json:"edit,omitempty"`       // applied before this command
	WriteEdit *EditFault         `json:"write_edit,omitempty"` // applied between this command's read of the target and its write
	Cpus      int                `json:"cpus,omitempty"`
	Stdin     string             `json:"stdin,omitempty"`
}

func (o *Op) mutating() bool { return mutatingCmd[o.Kind] }

// follows: `klog today --follow` / `-f`, a process that runs until it is interrupted.
func (o *Op) follows() bool {
	return o.Kind == "today" && (containsArg(o.Argv, "--follow") || containsArg(o.Argv, "-f"))
}

func joinLines(ls []string) string { return strings.Join(ls, `\n`) }

// renderArgv builds the command line. The file argument is a placeholder resolved by the executor.
// ArgForm varies the spelling only (never the meaning): bit 0 short flags, bit 1 `--flag value` instead of
// `--flag=value`, bit 2 flags after the positional arguments, bit 3 the command's alias, bit 4 flags in reverse order,
// bit 5 (applied by resolveArgv) the file as a path relative to the working directory, bit 6 --no-warn, bit 7 --no-style.
func (o *Op) renderArgv() {
	ar := &o.Args
	form := o.ArgForm
	short := map[string]string{"date": "d", "time": "t", "round": "r", "summary": "s", "resume": "R", "resume-nth": "N", "extend": "e"}
	var flags [][]string
	val := func(name, v string) {
		if strings.HasPrefix(v, "-") || v == "" {
			flags = append(flags, []string{"--" + name + "=" + v}) // a value that looks like a flag needs the `=` form
			return
		}
		if sh, ok := short[name]; ok && form&1 != 0 {
			flags = append(flags, []string{"-" + sh, v})
			return
		}
		if form&2 != 0 {
			flags = append(flags, []string{"--" + name, v})
			return
		}
		flags = append(flags, []string{"--" + name + "=" + v})
	}
	sw := func(name string) {
		if sh, ok := short[name]; ok && form&1 != 0 {
			flags = append(flags, []string{"-" + sh})
			return
		}
		flags = append(flags, []string{"--" + name})
	}
	switch ar.DateSel {
	case "today":
		sw("today")
	case "yesterday":
		sw("yesterday")
	case "tomorrow":
		sw("tomorrow")
	case "explicit":
		val("date", ar.Date)
	}
	if ar.Time != nil {
		val("time", ar.Time.Text)
	}
	if ar.Round != 0 {
		val("round", fmt.Sprintf("%dm", ar.Round))
	}
	if ar.Summary != nil {
		val("summary", joinLines(ar.Summary))
	}
	if ar.Resume {
		sw("resume")
	}
	if ar.ResumeNth != 0 {
		val("resume-nth", fmt.Sprint(ar.ResumeNth))
	}
	if ar.Should != "" {
		if form&1 != 0 && o.Kind == "create" {
			val("should-total", ar.Should) // the documented alias
		} else {
			val("should", ar.Should)
		}
	}
	if ar.NoTags {
		sw("no-tags")
	}
	if ar.Extend {
		sw("extend")
	}
	// flags that only concern what is printed: the effect on the file must not depend on them
	if form&64 != 0 {
		sw("no-warn")
	}
	if form&128 != 0 {
		sw("no-style")
	}
	var pos []string
	if ar.Entry != nil {
		text := ar.Entry.Value
		if len(ar.Entry.Summary) > 0 {
			if ar.Entry.Summary[0] != "" {
				if text != "" {
					text += " "
				}
				text += ar.Entry.Summary[0]
			}
			for _, l := range ar.Entry.Summary[1:] {
				text += `\n` + l
			}
		}
		if strings.HasPrefix(text, "-") {
			text = `\` + text // documented escape for negative durations
		}
		pos = append(pos, text)
	}
	if o.File != "" {
		pos = append(pos, "$FILE:"+o.File)
	}
	if form&16 != 0 {
		for i, j := 0, len(flags)-1; i < j; i, j = i+1, j-1 {
			flags[i], flags[j] = flags[j], flags[i]
		}
	}
	cmd := o.Kind
	if form&8 != 0 {
		switch cmd {
		case "start":
			cmd = "in"
		case "stop":
			cmd = "out"
		}
	}
	a := []string{cmd}
	if form&4 != 0 {
		a = append(a, pos...)
	}
	for _, f := range flags {
		a = append(a, f...)
	}
	if form&4 == 0 {
		a = append(a, pos...)
	}
	o.Argv = a
}

// resolveArgv replaces the file placeholder.
func resolveArgv(argv []string, root string, relative bool) []string {
	out := make([]string, len(argv))
	for i, a := range argv {
		if strings.HasPrefix(a, "$FILE:") {
			name := strings.TrimPrefix(a, "$FILE:")
			if strings.HasPrefix(name, "@") {
				out[i] = name
			} else {
				out[i] = root + "/" + name
				if relative {
					out[i] = "./" + name // the working directory is the scratch root
				}
			}
		} else {
			out[i] = a
		}
	}
	return out
}
