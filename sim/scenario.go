package main

import (
	"crypto/sha256"
	"encoding/hex"
	"encoding/json"
	"sort"
	"strings"
)

// Scenario is the replay file: pure data, produced by generate(seed, property, index),
// consumed by execute. Format 1, see DESIGN.md appendix C.
type Scenario struct {
	Format   int       `json:"format"`
	Property string    `json:"property"`
	Engine   string    `json:"engine"`
	Seed     int64     `json:"seed"`
	Index    int       `json:"index"`
	Tier     string    `json:"tier,omitempty"`
	Par      *ParCase  `json:"par,omitempty"`
	Rot      *RotCase  `json:"rot,omitempty"`
	Hist     *HistCase `json:"hist,omitempty"`
	Bkm      *BkmCase  `json:"bkm,omitempty"`
	Expect   *Expect   `json:"expect,omitempty"`
}

// Expect is what a replay must reproduce.
type Expect struct {
	Verdict     string `json:"verdict"`
	Rule        string `json:"rule"`
	Fingerprint string `json:"fingerprint"`
	Detail      string `json:"detail,omitempty"`
	LogSHA256   string `json:"event_log_sha256"`
}

// Verdict is one violation found by an oracle.
type Verdict struct {
	Property    string `json:"property"`
	Rule        string `json:"rule"`
	Site        string `json:"site"`
	Detail      string `json:"detail"`
	Step        int    `json:"step"`
	Fingerprint string `json:"fingerprint"`
}

func mkVerdict(prop, rule, site, detail string, step int) Verdict {
	return Verdict{Property: prop, Rule: rule, Site: site, Detail: detail, Step: step, Fingerprint: prop + "/" + rule + "/" + site}
}

// Outcome is what execute returns for one scenario.
type Outcome struct {
	Index     int                 `json:"index"`
	Verdicts  []Verdict           `json:"verdicts,omitempty"` // violations of the scenario's own property
	Foreign   []Verdict           `json:"foreign,omitempty"`  // violations of other properties seen on the way
	LogSHA256 string              `json:"log"`
	Stats     map[string]int      `json:"stats,omitempty"`
	Distinct  []string            `json:"distinct,omitempty"` // keys of distinct non-trivial cases
	Measures  map[string][]string `json:"measures,omitempty"` // further distinct-count measures (hashes), by name
	Sample    any                 `json:"sample,omitempty"`
	SimMillis int64               `json:"sim_ms,omitempty"`
	Procs     int                 `json:"procs,omitempty"`
	Log       []string            `json:"-"`
	Error     string              `json:"error,omitempty"` // harness trouble (never a violation)
}

func (o *Outcome) stat(k string, n int) {
	if o.Stats == nil {
		o.Stats = map[string]int{}
	}
	o.Stats[k] += n
}

func (o *Outcome) measure(name, key string) {
	if o.Measures == nil {
		o.Measures = map[string][]string{}
	}
	o.Measures[name] = append(o.Measures[name], key)
}

func (o *Outcome) finish() {
	h := sha256.New()
	for _, l := range o.Log {
		h.Write([]byte(l))
		h.Write([]byte{'\n'})
	}
	o.LogSHA256 = hex.EncodeToString(h.Sum(nil))
}

func mergeStats(dst, src map[string]int) {
	for k, v := range src {
		dst[k] += v
	}
}

func sortedKeys(m map[string]int) []string {
	ks := make([]string, 0, len(m))
	for k := range m {
		ks = append(ks, k)
	}
	sort.Strings(ks)
	return ks
}

func cloneScenario(sc *Scenario) *Scenario {
	b, _ := json.Marshal(sc)
	var c Scenario
	_ = json.Unmarshal(b, &c)
	return &c
}

func shortText(s string, n int) string {
	s = strings.ToValidUTF8(s, "�")
	if len(s) > n {
		return s[:n] + "…"
	}
	return s
}

// engine is implemented by par, rot, hist, bkm.
type engine interface {
	generate(property string, seed int64, index int, tier string) *Scenario
	execute(sc *Scenario) *Outcome
	// shrink returns simpler variants of the scenario, most aggressive first.
	shrink(sc *Scenario) []*Scenario
}

var engines = map[string]engine{}

// which engine serves which property
var propertyEngine = map[string]string{
	"C07": "par",
	"C06": "rot",
	"C03": "hist", "C04": "hist", "C05": "hist", "C11": "hist", "C17": "hist",
	"C19": "bkm",
}
