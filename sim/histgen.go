package main

import (
	"encoding/base64"
	"fmt"
	"strings"
	"time"

	"github.com/jotaen/klog/klog/parser"
	"github.com/jotaen/klog/klog/verifsim"
)

func parseSerialDumpRecords(text string) (ds []DRecord) {
	ok := false
	func() {
		defer func() { _ = recover() }()
		rs, _, es := parser.NewSerialParser().Parse(text)
		if es == nil {
			ds = dumpRecords(rs)
			ok = true
		}
	}()
	if !ok {
		return nil
	}
	if ds == nil {
		ds = []DRecord{}
	}
	return ds
}

var roundings = []int{5, 10, 12, 15, 20, 30, 60}
var zones = []int{0, 0, 60, -300, 330, 765, -720}

// edgeBase draws a wall-clock instant biased to the edges.
func edgeBase(r *Rng, zoneMin int) time.Time {
	zone := time.FixedZone("SIM", zoneMin*60)
	var y, m, d int
	switch r.Intn(10) {
	case 0:
		y, m, d = 2024, 2, 29
	case 1:
		y, m, d = 2023, 2, 28
	case 2:
		y, m, d = 2023, 12, 31
	case 3:
		y, m, d = 2024, 1, 1
	case 4:
		y, m, d = 2024, r.Range(1, 12), 1
	case 5:
		y, m, d = 2024, 3, 1
	default:
		y, m, d = r.Range(2019, 2030), r.Range(1, 12), r.Range(1, 28)
	}
	var minute int
	switch r.Intn(8) {
	case 0:
		minute = r.Range(1410, 1439)
	case 1:
		minute = r.Range(0, 30)
	case 2:
		rr := roundings[r.Intn(len(roundings))]
		minute = (r.Intn(1440/rr)*rr + rr/2 + r.Range(-1, 1) + 1440) % 1440
	case 3:
		minute = r.Pick2([]int{0, 1, 719, 720, 721, 1438, 1439})
	default:
		minute = r.Intn(1440)
	}
	return time.Date(y, time.Month(m), d, minute/60, minute%60, r.Intn(60), 0, zone)
}

func genWorld(r *Rng, focus string) (World, time.Time) {
	w := World{ZoneMin: zones[r.Intn(len(zones))], Cpus: r.Pick2([]int{1, 1, 2, 4, 16, 64}), Env: map[string]string{}}
	base := edgeBase(r, w.ZoneMin)
	if r.Chance(1, 7) {
		w.ZoneName, base = dstBase(r)
	}
	w.BaseUnix = base.Unix()
	if !r.Chance(1, 6) {
		w.Env["NO_COLOR"] = "1"
	}
	var ini []string
	if r.Chance(1, 4) {
		w.CfgRounding = roundings[r.Intn(len(roundings))]
		ini = append(ini, fmt.Sprintf("default_rounding = %dm", w.CfgRounding))
	}
	if r.Chance(1, 4) {
		w.CfgShouldMins = r.Pick2([]int{480, 450, 60, 0})
		w.CfgShould = fmtDuration(w.CfgShouldMins, false, r)
		ini = append(ini, "default_should_total = "+w.CfgShould+"!")
	}
	if r.Chance(1, 6) {
		w.CfgDateFormat = r.Pick([]string{"YYYY-MM-DD", "YYYY/MM/DD"})
		ini = append(ini, "date_format = "+w.CfgDateFormat)
	}
	if r.Chance(1, 6) {
		w.CfgTimeConv = r.Pick([]string{"24h", "12h"})
		ini = append(ini, "time_convention = "+w.CfgTimeConv)
	}
	if len(ini) > 0 {
		w.ConfigIni = strings.Join(ini, "\n") + "\n"
	}
	return w, base
}

func genTimeSpec(r *Rng, mins int) *TimeSpec {
	if mins < -1440 {
		mins = -1440
	}
	if mins > 2879 {
		mins = 2879
	}
	return &TimeSpec{Text: fmtTime(mins, r.Chance(1, 4), r.Chance(1, 6)), Mins: mins}
}

func genSummaryLines(r *Rng) []string {
	n := r.Pick2([]int{1, 1, 1, 2, 2, 3})
	ls := make([]string, n)
	for i := range ls {
		ls[i] = genSummaryText(r)
	}
	if n > 1 && r.Chance(1, 6) {
		ls[0] = "" // summary starts on the next line
	}
	if n > 1 && r.Chance(1, 8) {
		// a continuation line that begins like the documented escape of the FIRST line (`\-45m`): it is ordinary text
		ls[r.Range(1, n-1)] = r.Pick([]string{`\-5 degrees outside`, `\\-- see ticket`, `\-v and \-x`})
	}
	return ls
}

func genEntrySpec(r *Rng, hasOpen bool) *EntrySpec {
	e := &EntrySpec{}
	switch k := r.Intn(12); {
	case k == 0:
		e.Kind = "invalid"
		if r.Chance(1, 3) {
			// a blank first line followed by continuation lines: the entry line itself is missing
			e.Value = r.Pick([]string{"", " ", "\t", "  "})
			e.Summary = []string{"", r.Pick([]string{"foo", "1h", "8:00 - 9:00", "x y"})}
			if r.Chance(1, 3) {
				e.Summary = append(e.Summary, genSummaryText(r))
			}
			return e
		}
		e.Value = r.Pick([]string{"25:00 - 26:00", "foo", "1h30", "9:00 -", "12:00 - 11:00", "8:00 - 9:00xm", "1:00pm>-", "<8:00> - 9:00", "-", "1h2h"})
	case k < 5:
		e.Kind = "duration"
		e.Mins = r.Pick2([]int{0, 1, 30, 45, 60, 90, 135, 480, r.Intn(900)})
		if r.Chance(1, 3) {
			e.Mins = -e.Mins
		}
		e.Value = fmtDuration(e.Mins, e.Mins >= 0 && r.Chance(1, 6), r)
	case k < 10:
		e.Kind = "range"
		e.Start = r.Range(0, 1439)
		if r.Chance(1, 8) {
			e.Start = r.Range(-1440, -1)
		}
		e.End = e.Start + r.Range(0, 500)
		if e.End > 2879 {
			e.End = 2879
		}
		tw := r.Chance(1, 4)
		dash := " - "
		if r.Chance(1, 4) {
			dash = "-"
		}
		e.Value = fmtTime(e.Start, tw, false) + dash + fmtTime(e.End, tw, false)
	default:
		e.Kind = "open"
		e.Start = r.Range(0, 1439)
		e.Value = fmtTime(e.Start, r.Chance(1, 4), false) + " - " + strings.Repeat("?", r.Pick2([]int{1, 1, 1, 2, 3}))
	}
	if e.Kind == "invalid" {
		// no free-form summary: a following word such as `?` or a time could turn the broken
		// value into a valid entry
		if r.Chance(1, 2) {
			e.Summary = []string{"zzz"}
		}
		return e
	}
	if r.Chance(3, 5) {
		e.Summary = genSummaryLines(r)
	}
	return e
}

func genPauseSteps(r *Rng) []TimeStep {
	n := r.Range(1, 4)
	var st []TimeStep
	for i := 0; i < n; i++ {
		switch r.Intn(6) {
		case 0:
			st = append(st, TimeStep{JumpS: r.Pick2([]int{60, 3600, 7200, 86400, 125, 59, 14400, 36000, 259200})})
			if i == n-1 || r.Chance(1, 2) {
				// resume after a suspend, then Ctrl-C within a second: the first tick after the jump must already
				// have written everything that elapsed
				st = append(st, TimeStep{AdvanceS: 1})
				if r.Chance(1, 2) {
					return st
				}
			}
		case 1:
			st = append(st, TimeStep{JumpS: -r.Pick2([]int{60, 1800, 3600, 86400, 30})})
		case 2:
			st = append(st, TimeStep{AdvanceS: r.Pick2([]int{600, 1800, 3599, 3600})})
		default:
			st = append(st, TimeStep{AdvanceS: r.Range(1, 200)})
		}
	}
	return st
}

// predictedPauseElapsed: simulated seconds a pause with this plan takes.
func stepsElapsed(st []TimeStep) (elapsed, skew int) {
	for _, s := range st {
		elapsed += s.AdvanceS
		skew += s.JumpS
	}
	return
}

type genState struct {
	advanced int // simulated seconds of pause planned so far in this scenario (bounded: real time per scenario)
	r        *Rng
	w        *World
	clock    time.Time
	pred     map[string]MState // predicted records per file (nil = unknown / invalid)
	focus    string
}

func (g *genState) dateArgs(a *OpArgs, st MState, farOK bool) {
	r := g.r
	y, m, d := civil(g.clock)
	switch k := r.Intn(20); {
	case k < 11:
	case k < 12:
		a.DateSel = "today"
	case k < 14:
		a.DateSel = "yesterday"
	case k < 15:
		a.DateSel = "tomorrow"
	default:
		a.DateSel = "explicit"
		switch {
		case len(st) > 0 && r.Chance(3, 5):
			rec := st[r.Intn(len(st))]
			a.DY, a.DM, a.DD = rec.Y, rec.M, rec.D
		case r.Chance(3, 4) || !farOK:
			a.DY, a.DM, a.DD = addDays(y, m, d, r.Range(-4, 3))
		default:
			a.DY, a.DM, a.DD = addDays(y, m, d, r.Range(-400, 400))
		}
		if farOK && r.Chance(1, 10) {
			// the edges of the calendar: the first and the last representable days
			e := [][3]int{{0, 1, 1}, {0, 1, 2}, {9999, 12, 31}, {9999, 12, 30}, {0, 12, 31}, {9999, 1, 1}}[r.Intn(6)]
			a.DY, a.DM, a.DD = e[0], e[1], e[2]
		}
		a.Date = fmtDate(a.DY, a.DM, a.DD, r.Chance(1, 4))
	}
}

// invalidEntrySummary: continuation lines must not be blank.
func invalidEntrySummary(r *Rng) []string {
	// (a carriage-return-only line is not used: it is a blank line in an LF file but an
	// ordinary, if odd, summary line in a CRLF file)
	return [][]string{{"a", ""}, {"a", "  "}, {"", "", "b"}, {"x", "\t"}, {"a", "", "b"}}[r.Intn(5)]
}

func (g *genState) summaryArgs(a *OpArgs) {
	r := g.r
	if r.Chance(1, 40) {
		a.Summary = invalidEntrySummary(r)
		a.Invalid = true
		a.Why = "invalid summary argument"
		return
	}
	switch k := r.Intn(20); {
	case k < 8:
	case k < 15:
		a.Summary = genSummaryLines(r)
	case k < 17:
		a.Resume = true
	case k < 19:
		a.ResumeNth = r.Pick2([]int{1, 2, -1, -2, 3, 9})
	default:
		// conflicting flags
		a.Summary = genSummaryLines(r)
		a.Resume = true
		a.Why = "conflicting flags"
	}
}

func (g *genState) genMutating(kind string, file string) Op {
	r := g.r
	op := Op{Kind: kind, File: file}
	a := &op.Args
	st := g.pred[g.targetOf(file)]
	clk := mkClock(g.clock)
	switch kind {
	case "track":
		g.dateArgs(a, st, true)
		y, m, d := clk.targetDate(a)
		hasOpen := false
		for _, i := range st.candidates(dateKey(y, m, d)) {
			if st[i].openIndex() != -1 {
				hasOpen = true
			}
		}
		a.Entry = genEntrySpec(r, hasOpen)
	case "create":
		g.dateArgs(a, st, true)
		if r.Chance(1, 3) {
			a.ShouldMins = r.Pick2([]int{480, 300, 30, 0, -60})
			a.Should = fmtDuration(a.ShouldMins, false, r) + "!"
			if r.Chance(1, 4) {
				a.Should = strings.TrimSuffix(a.Should, "!")
			}
		}
		if r.Chance(1, 3) {
			n := r.Range(1, 2)
			for i := 0; i < n; i++ {
				a.Summary = append(a.Summary, genSummaryText(r))
			}
		}
		if r.Chance(1, 30) {
			// a record summary line must not be blank nor start with a blank
			a.Summary = [][]string{{" lead"}, {"a", ""}, {"a", " b"}, {"\tx"}, {"ok", "  "}}[r.Intn(5)]
			a.Invalid = true
			a.Why = "invalid record summary argument"
		}
	case "start", "stop", "switch":
		g.dateArgs(a, st, r.Chance(1, 3))
		if kind != "start" && r.Chance(3, 4) {
			// steer towards a record that has an open range
			var open []int
			for i := range st {
				if st[i].openIndex() != -1 {
					open = append(open, i)
				}
			}
			if len(open) > 0 {
				rec := st[open[r.Intn(len(open))]]
				*a = OpArgs{}
				switch rec.key() {
				case dateKey(clk.ty, clk.tm, clk.td):
					a.DateSel = r.Pick([]string{"", "", "today"})
				case dateKey(addDays(clk.ty, clk.tm, clk.td, -1)):
					a.DateSel = r.Pick([]string{"yesterday", "yesterday", ""})
				case dateKey(addDays(clk.ty, clk.tm, clk.td, 1)):
					a.DateSel = "tomorrow"
				}
				if a.DateSel == "" && rec.key() != dateKey(clk.ty, clk.tm, clk.td) || r.Chance(1, 4) {
					a.DateSel = "explicit"
					a.DY, a.DM, a.DD = rec.Y, rec.M, rec.D
					a.Date = fmtDate(a.DY, a.DM, a.DD, r.Chance(1, 4))
				}
			}
		}
		y, m, d := clk.targetDate(a)
		far := a.DateSel == "explicit" && dateKey(y, m, d) != dateKey(clk.ty, clk.tm, clk.td)
		explicit := r.Chance(2, 5)
		if far {
			explicit = r.Chance(6, 7)
		}
		if explicit {
			ref := r.Range(0, 1439)
			// relative to an open range if there is one
			for _, i := range st.candidates(dateKey(y, m, d)) {
				if oi := st[i].openIndex(); oi != -1 && kind != "start" {
					ref = st[i].Entries[oi].Start + r.Range(0, 300)
					if r.Chance(1, 8) {
						ref = st[i].Entries[oi].Start - r.Range(1, 120)
						a.Why = "end before start"
					}
				}
			}
			if r.Chance(1, 12) {
				ref = r.Pick2([]int{-1440, -1, 0, 1439, 1440, 1441, 2879})
			}
			if r.Chance(1, 7) {
				// the same or a nearby wall-clock time, but on the previous / next day
				ref += r.Pick2([]int{-1440, 1440, -1440, 1440, -2880, 2880}) + r.Range(-30, 90)
			}
			a.Time = genTimeSpec(r, ref)
		} else if r.Chance(1, 3) {
			a.Round = roundings[r.Intn(len(roundings))]
		}
		if explicit && r.Chance(1, 8) {
			a.Round = roundings[r.Intn(len(roundings))] // must not touch an explicit time
		}
		if kind == "stop" {
			if r.Chance(2, 5) {
				a.Summary = genSummaryLines(r)
			}
			if r.Chance(1, 40) {
				a.Summary = invalidEntrySummary(r)
				a.Invalid = true
			}
		} else {
			g.summaryArgs(a)
		}
	case "pause":
		if r.Chance(1, 3) {
			a.Summary = genSummaryLines(r)
		}
		a.NoTags = r.Chance(1, 5)
		if r.Chance(1, 4) {
			a.Extend = true
			if !r.Chance(1, 10) {
				a.Summary = nil
			}
		}
		op.Steps = genPauseSteps(r)
		for i := range op.Steps {
			// at most ~5 simulated hours of pause per scenario (each simulated hour costs about
			// 0.7 s of real time; the watchdog must never mistake a long scenario for a hang)
			if g.advanced+op.Steps[i].AdvanceS > 18000 {
				op.Steps[i].AdvanceS = 61 + op.Steps[i].AdvanceS%120
			}
			g.advanced += op.Steps[i].AdvanceS
		}
		if g.focus == "C11" || g.focus == "C03" {
			// the style/line oracles do not need long pauses
			for i := range op.Steps {
				if op.Steps[i].AdvanceS > 130 {
					op.Steps[i].AdvanceS = 61 + op.Steps[i].AdvanceS%60
				}
			}
		}
	}
	if r.Chance(1, 3) {
		op.ArgForm = r.Intn(256) // another spelling of the same command line
	}
	op.renderArgv()
	return op
}

func (g *genState) targetOf(file string) string {
	if file == "" || file == "@default" {
		return g.w.DefaultTarget
	}
	return file
}

// advance applies the model to the prediction (steering only).
func (g *genState) advance(op *Op) {
	name := g.targetOf(op.File)
	st, ok := g.pred[name]
	if !ok || st == nil {
		return
	}
	mc := &modelCtx{w: g.w, clk: mkClock(g.clock)}
	var outs []MOutcome
	if op.Kind == "pause" {
		el, skew := stepsElapsed(op.Steps)
		t0 := g.clock
		end := g.clock.Add(time.Duration(el+skew) * time.Second)
		outs, _ = mc.applyPause(st, op, t0, []time.Time{end})
		g.clock = end
	} else {
		outs = mc.apply(st, op)
	}
	for _, o := range outs {
		if !o.Reject {
			ns := o.State.clone()
			for i := range ns {
				for j := range ns[i].Entries {
					ns[i].Entries[j].Pause = nil
				}
			}
			g.pred[name] = ns
			return
		}
	}
}

func (g *genState) chooseKind(file string) string {
	r := g.r
	st := g.pred[g.targetOf(file)]
	clk := mkClock(g.clock)
	openNear := false
	for _, key := range []int{dateKey(clk.ty, clk.tm, clk.td), dateKey(addDays(clk.ty, clk.tm, clk.td, -1))} {
		for _, i := range st.candidates(key) {
			if st[i].openIndex() != -1 {
				openNear = true
			}
		}
	}
	var kinds []string
	if openNear {
		kinds = []string{"stop", "stop", "stop", "switch", "switch", "pause", "pause", "track", "start", "create"}
	} else {
		kinds = []string{"start", "start", "start", "track", "track", "create", "stop", "switch", "pause"}
	}
	return kinds[r.Intn(len(kinds))]
}

var readOnlyCmds = [][]string{{"print"}, {"total"}, {"total", "--now", "--decimal", "--no-style"}, {"today", "--now", "--decimal", "--no-style"}, {"json"}, {"json", "--now"}, {"today"}, {"report"}, {"tags"}}

func (histEngine) generate(property string, seed int64, index int, tier string) *Scenario {
	r := newRng(seed, "hist", property, fmt.Sprint(index))
	if property == "C17" {
		return genC17(r, seed, index, tier)
	}
	w, base := genWorld(r, property)
	g := &genState{r: r, w: &w, clock: base, pred: map[string]MState{}, focus: property}
	// files
	opts := docOpts{today: base, maxRecords: r.Pick2([]int{0, 1, 2, 3, 4, 6}), wantOpen: r.Pick2([]int{0, 0, 1, 1, -1})}
	if property == "C11" {
		opts.maxRecords = r.Pick2([]int{0, 1, 2, 2, 3, 4})
	}
	if (property == "C05" || property == "C03") && r.Chance(1, 4) {
		// files in which closing the open range makes the file shorter (a write path that does
		// not truncate leaves the old tail behind)
		opts.longQ, opts.wantOpen = true, 1
	}
	docA := genDoc(r, opts)
	if property == "C11" && r.Chance(1, 2) {
		// force style ties: alternate two styles between records
		for i := range docA.Records {
			if i%2 == 1 {
				docA.Records[i].Indent = indents[(r.Intn(3)+1+indexOf(indents, docA.Records[0].Indent))%4]
				if r.Chance(1, 2) {
					docA.Records[i].EOL = map[string]string{"\n": "\r\n", "\r\n": "\n"}[docA.Records[0].EOL]
				}
			}
		}
	} else if property == "C11" && r.Chance(1, 6) {
		// a large file, uniform except for two records (far apart) that disagree in one
		// dimension: a 1:1 tie whose candidates first appear in different parts of the file
		n := r.Range(64, 260)
		dim := r.Intn(4)
		i1, i2 := r.Range(0, n/2-1), r.Range(n/2, n-1)
		day := base.AddDate(0, 0, -n-1)
		docA = GDoc{FinalNewline: true}
		for k := 0; k < n; k++ {
			day = day.AddDate(0, 0, 1)
			rec := GRecord{Y: day.Year(), M: int(day.Month()), D: day.Day(), Indent: "", EOL: "\n", BlankAfter: []string{""}}
			rec.Date = fmtDate(rec.Y, rec.M, rec.D, false)
			if k == i1 || k == i2 {
				first := k == i1
				switch dim {
				case 0:
					rec.Indent = map[bool]string{true: "  ", false: "\t"}[first]
					rec.Entries = []GEntry{{Value: "1h"}}
				case 1:
					rec.Indent = "    "
					rec.Entries = []GEntry{{Value: "8:00 - " + map[bool]string{true: "?", false: "???"}[first], Open: true}}
				case 2:
					rec.Indent = "    "
					rec.Entries = []GEntry{{Value: map[bool]string{true: "8:00-9:00", false: "8:00 - 9:00"}[first]}}
				default:
					rec.Indent = "    "
					rec.Entries = []GEntry{{Value: map[bool]string{true: "8:00am - 9:00am", false: "8:00 - 9:00"}[first]}}
				}
			}
			if rec.Indent == "" {
				rec.Indent = "    "
			}
			docA.Records = append(docA.Records, rec)
		}
	} else if property == "C11" && r.Chance(1, 2) {
		// election shapes with three or four candidates: a minority style first, then two
		// styles that tie; the last record shows no style of its own
		patterns := [][]int{{0, 1, 2, 1, 2}, {0, 1, 2, 2, 1}, {0, 1, 1, 2, 2}, {0, 1, 2}, {0, 1, 2, 3}, {2, 0, 1, 0, 1}, {0, 0, 1, 1}, {1, 2, 0, 2, 1, 0}}
		pat := patterns[r.Intn(len(patterns))]
		perm := []int{0, 1, 2, 3}
		for i := 3; i > 0; i-- {
			j := r.Intn(i + 1)
			perm[i], perm[j] = perm[j], perm[i]
		}
		day := base.AddDate(0, 0, -len(pat)-1)
		docA = GDoc{FinalNewline: true}
		usePlaceholder := r.Chance(1, 3)
		for _, k := range pat {
			day = day.AddDate(0, 0, 1)
			rec := GRecord{Y: day.Year(), M: int(day.Month()), D: day.Day(), Indent: indents[perm[k]], EOL: "\n", BlankAfter: []string{""}}
			if usePlaceholder {
				rec.Indent = indents[perm[0]]
				rec.Entries = []GEntry{{Value: "8:00 - " + strings.Repeat("?", 1+k), Open: true}}
			} else {
				rec.Entries = []GEntry{{Value: "1h", Summary: []string{"x"}}}
			}
			rec.Date = fmtDate(rec.Y, rec.M, rec.D, false)
			docA.Records = append(docA.Records, rec)
		}
		// a target without own style: today's record with no entries (or, for placeholders, one duration)
		tr := GRecord{Y: base.Year(), M: int(base.Month()), D: base.Day(), Indent: indents[perm[0]], EOL: "\n", BlankAfter: []string{""}}
		tr.Date = fmtDate(tr.Y, tr.M, tr.D, false)
		if usePlaceholder {
			tr.Entries = []GEntry{{Value: "1h"}}
		}
		if r.Chance(2, 3) {
			docA.Records = append(docA.Records, tr)
		}
	}
	if property == "C11" && r.Chance(1, 10) {
		// n records of equal byte length, alternating between LF and CRLF, separated by two blank lines that carry
		// the line ending of the record before them; run with n CPUs, so that the chunk boundaries of a parser
		// that cuts the text into n equal parts fall between those blank lines. Today's record is the last one.
		n := r.Pick2([]int{2, 2, 3, 4})
		docA = GDoc{FinalNewline: true}
		first := r.Pick([]string{"\n", "\r\n"})
		for k := 0; k < n; k++ {
			day := base.AddDate(0, 0, k-n+1)
			eol := first
			if k%2 == 1 {
				eol = map[string]string{"\n": "\r\n", "\r\n": "\n"}[first]
			}
			rec := GRecord{Y: day.Year(), M: int(day.Month()), D: day.Day(), Indent: "    ", EOL: eol, BlankAfter: []string{"", ""}}
			rec.Date = fmtDate(rec.Y, rec.M, rec.D, false)
			pad := 44 - (10 + len(eol) + 7 + len(eol))
			rec.Entries = []GEntry{{Value: "1h", Summary: []string{strings.Repeat("x", pad)}}}
			if k == n-1 {
				rec.BlankAfter = nil
			}
			docA.Records = append(docA.Records, rec)
		}
		w.Cpus = n
	}
	if property == "C11" && r.Chance(1, 4) {
		// a target that shows only SOME dimensions of style: today's record holds durations only (indentation and
		// line ending are its own, clock convention / dash spacing / placeholder must come from the other records)
		// or closed ranges only (no placeholder of its own)
		found := false
		mk := func() []GEntry {
			if r.Chance(2, 3) {
				return []GEntry{{Value: "45m", Summary: []string{"standup"}}, {Value: "1h30m"}}[:r.Range(1, 2)]
			}
			return nil
		}
		for i := range docA.Records {
			rec := &docA.Records[i]
			if rec.Y == base.Year() && rec.M == int(base.Month()) && rec.D == base.Day() {
				found = true
				if es := mk(); es != nil {
					rec.Entries = es
				} else {
					// keep the closed ranges only
					var keep []GEntry
					for _, e := range rec.Entries {
						if !e.Open && strings.Contains(e.Value, ":") {
							keep = append(keep, e)
						}
					}
					rec.Entries = keep
				}
			}
		}
		if !found && len(docA.Records) > 0 {
			tr := GRecord{Y: base.Year(), M: int(base.Month()), D: base.Day(), Indent: docA.Records[0].Indent, EOL: docA.Records[0].EOL, BlankAfter: []string{""}}
			tr.Date = fmtDate(tr.Y, tr.M, tr.D, strings.Contains(docA.Records[0].Date, "/"))
			tr.Entries = []GEntry{{Value: "45m", Summary: []string{"standup"}}}
			if last := &docA.Records[len(docA.Records)-1]; len(last.BlankAfter) == 0 {
				last.BlankAfter = []string{""}
			}
			docA.Records = append(docA.Records, tr)
		}
	}
	w.setFile("a.klg", docA.render())
	if r.Chance(1, 4) {
		docB := genDoc(r, docOpts{today: base, maxRecords: 3})
		w.setFile("b.klg", docB.render())
	}
	if r.Chance(1, 4) {
		w.DefaultTarget = "a.klg"
	}
	for n := range w.Files {
		if ds := parseSerialDumpRecords(w.file(n)); ds != nil {
			g.pred[n] = stateFromDump(ds)
		}
	}
	maxOps := 8
	switch property {
	case "C04":
		maxOps = 25
	case "C11":
		maxOps = 4
	}
	n := r.Range(1, maxOps)
	hc := &HistCase{Focus: property}
	for i := 0; i < n; i++ {
		file := "a.klg"
		if _, ok := w.Files["b.klg"]; ok && r.Chance(1, 4) {
			file = "b.klg"
		}
		if w.DefaultTarget != "" && r.Chance(1, 2) {
			file = ""
			if r.Chance(1, 4) {
				file = "@default"
			}
		}
		var op Op
		if r.Chance(1, 8) && property != "C11" {
			cmd := readOnlyCmds[r.Intn(len(readOnlyCmds))]
			op = Op{Kind: cmd[0], File: file}
			op.Argv = append([]string{}, cmd...)
			if file != "" {
				op.Argv = append(op.Argv, "$FILE:"+file)
			}
		} else {
			op = g.genMutating(g.chooseKind(file), file)
		}
		// time between commands, clock faults
		if i > 0 {
			op.GapS = r.Pick2([]int{0, 1, 30, 61, 600, 3600, 7200, 30000, 86400})
		}
		faults := property == "C04" || property == "C05"
		if faults && r.Chance(1, 10) {
			op.JumpS = r.Pick2([]int{3600, -3600, 86400, -86400, 7200, -59, 61, 259200, -259200})
		}
		g.clock = g.clock.Add(time.Duration(op.GapS+op.JumpS) * time.Second)
		if r.Chance(1, 5) {
			op.Cpus = r.Pick2([]int{1, 2, 3, 8, 16, 200})
		}
		if op.mutating() && op.Kind != "pause" && r.Chance(1, map[bool]int{true: 3, false: 10}[file == ""]) {
			// something is piped into stdin (a shell loop `while read ...; do klog start ...; done < tasks.txt`):
			// a mutating command works on its file argument or the default bookmark, never on stdin
			op.Stdin = r.Pick([]string{"buy milk\ncall bob\n", "2024-01-01\n    1h\n", "2024-01-01\nfoo\n  bar 1h\n\tnot valid\n", "y\n", "\n", "\x00\x01 junk"})
		}
		op.Tape = r.Tape(48, 64)
		op.MapOrder = r.Chance(1, 2) || property == "C11"
		op.MapTape = r.Tape(16, 7)
		// faults
		if property == "C05" {
			g.genC05Faults(&op, file)
		} else if property == "C03" && op.Kind == "pause" && len(op.Steps) > 0 && g.targetOf(file) != "" && r.Chance(1, 3) {
			// somebody else adds a record while the pause runs; a minute boundary follows so that klog writes again
			op.Steps[r.Intn(len(op.Steps))].Edit = &EditFault{Kind: "append_record", File: g.targetOf(file)}
			op.Steps = append(op.Steps, TimeStep{AdvanceS: r.Range(61, 200)})
			delete(g.pred, g.targetOf(file))
		} else if property == "C03" && op.mutating() && r.Chance(1, 12) {
			// the write fails (disk full) before or after a part of the new text is on disk: klog must say so;
			// if it reports success all the same, the lines of the file must be there
			op.Plan.WriteNth = 1
			op.Plan.WriteFault = r.Pick([]string{"error_before", "error_after", "error_after"})
			op.Plan.WriteCut = r.Intn(4096)
			delete(g.pred, g.targetOf(file))
		} else if property == "C04" {
			switch k := r.Intn(40); {
			case k == 0:
				op.Plan.KillAtEvent = r.Range(1, 10)
			case k == 1 && op.mutating():
				g.userEdit(&op, file)
			case k == 2:
				// an I/O error that klog must either report or fully recover from
				op.Plan.MetaFailNth = r.Range(1, 4)
			case k == 3:
				op.Plan.WriteNth = 1
				op.Plan.WriteFault = r.Pick([]string{"error_before", "error_after"})
				op.Plan.WriteCut = r.Intn(4096)
			case (k == 4 || k == 5 || k == 6) && op.Kind == "pause" && len(op.Steps) > 0:
				// a transient I/O error at one of the later ticks of a running pause (the file is renamed away for
				// a moment, a network drive hiccups), and time goes on afterwards: either the command ends with
				// a failure there, or everything it writes later is complete again
				if r.Chance(1, 2) {
					op.Plan.ReadNth = r.Range(4, 9)
				} else {
					op.Plan.WriteNth = r.Range(2, 4)
					op.Plan.WriteFault = "error_before"
				}
				op.Steps = append(op.Steps, TimeStep{AdvanceS: r.Range(125, 260)})
			}
		}
		if op.Kind != "pause" && len(op.Argv) == 0 {
			op.renderArgv()
		}
		hc.Ops = append(hc.Ops, op)
		if op.mutating() && op.Plan == (verifsim.FaultPlan{}) {
			g.advance(&hc.Ops[len(hc.Ops)-1])
		} else if op.Plan != (verifsim.FaultPlan{}) {
			delete(g.pred, g.targetOf(file))
		}
	}
	hc.World = w
	return &Scenario{Format: 1, Property: property, Engine: "hist", Seed: seed, Index: index, Tier: tier, Hist: hc}
}

func indexOf(xs []string, x string) int {
	for i, v := range xs {
		if v == x {
			return i
		}
	}
	return 0
}

func (g *genState) userEdit(op *Op, file string) {
	r := g.r
	name := g.targetOf(file)
	if name == "" {
		return
	}
	doc := genDoc(r, docOpts{today: g.clock, maxRecords: 4, wantOpen: r.Pick2([]int{0, 1})})
	text := doc.render()
	op.Edit = &EditFault{Kind: "user_edit", File: name, NewB64: base64.StdEncoding.EncodeToString([]byte(text))}
	if ds := parseSerialDumpRecords(text); ds != nil {
		g.pred[name] = stateFromDump(ds)
	}
}

// genC05Faults: operations and environments built to fail at a chosen step.
func (g *genState) genC05Faults(op *Op, file string) {
	r := g.r
	name := g.targetOf(file)
	switch k := r.Intn(24); {
	case k == 0:
		op.Plan.KillAtEvent = r.Range(1, 12)
	case k == 1:
		op.Plan.WriteNth = 1
		op.Plan.WriteFault = r.Pick([]string{"torn", "error_before", "error_after"})
		op.Plan.WriteCut = r.Intn(4096)
	case k == 2 && op.Kind == "pause":
		op.Plan.WriteNth = 2
		op.Plan.WriteFault = r.Pick([]string{"torn", "error_before", "error_after"})
		op.Plan.WriteCut = r.Intn(4096)
	case k == 3:
		op.Plan.ReadNth = r.Range(1, 3)
	case k == 4 && name != "":
		// bit rot on the target: an invalid (or differently valid) file
		cur := g.w.file(name)
		dmg := damage(r, cur, damageKinds[r.Intn(len(damageKinds))])
		op.Edit = &EditFault{Kind: "bitrot", File: name, NewB64: base64.StdEncoding.EncodeToString([]byte(dmg))}
		delete(g.pred, name)
	case k == 5 && name != "":
		op.Edit = &EditFault{Kind: "remove", File: name}
		delete(g.pred, name)
	case k == 6 && name != "":
		op.Edit = &EditFault{Kind: "mkdir", File: name}
		delete(g.pred, name)
	case k == 7:
		op.File = r.Pick([]string{"missing.klg", "@nosuch", "nodir/x.klg"})
		op.renderArgv()
	case k == 8 && op.mutating():
		g.userEdit(op, file)
	case k == 9 && op.Kind == "pause":
		op.Plan.KillAtEvent = r.Range(4, 40)
	case (k == 13 || k == 14) && op.Kind == "pause" && name != "" && len(op.Steps) > 0:
		// somebody edits the file while the pause is running
		e := &EditFault{File: name}
		switch r.Intn(5) {
		case 0:
			e.Kind = "bitrot"
			dmg := damage(r, g.w.file(name), damageKinds[r.Intn(len(damageKinds))])
			e.NewB64 = base64.StdEncoding.EncodeToString([]byte(dmg))
		case 1:
			e.Kind = "remove"
		default:
			e.Kind = "user_edit"
			doc := genDoc(r, docOpts{today: g.clock, maxRecords: 3, wantOpen: r.Pick2([]int{1, 1, -1})})
			e.NewB64 = base64.StdEncoding.EncodeToString([]byte(doc.render()))
		}
		pos := r.Intn(len(op.Steps))
		op.Steps[pos].Edit = e
		// make sure a minute boundary follows the edit most of the time
		if r.Chance(3, 4) {
			op.Steps = append(op.Steps, TimeStep{AdvanceS: r.Range(61, 200)})
		}
		delete(g.pred, name)
	case (k == 13 || k == 14 || k == 15) && op.mutating() && op.Kind != "pause" && name != "":
		// somebody else (an editor, a sync tool) saves the file between this command's read and its write
		op.WriteEdit = &EditFault{Kind: r.Pick([]string{"drop_first_record", "append_record", "remove", "drop_first_record"}), File: name}
		delete(g.pred, name)
	case k == 10 || k == 11:
		// only hand-written write paths (open/rename/close/sync) can be hit by this one
		op.Plan.MetaFailNth = r.Range(1, 4)
	case k == 12:
		op.Plan.WriteNth = 1
		op.Plan.WriteFault = "error_before"
	}
}

// ---------------------------------------------------------------------------------------
// C17: the clock sweep

var c17Selections = []string{"", "today", "yesterday", "tomorrow", "explicit"}
var c17Layouts = []string{"none", "today-open", "yesterday-open", "both-open", "today-closed+yesterday-open"}
var c17Cmds = []string{"start", "stop", "switch", "json-now", "total-now", "today-now", "today-follow"}
var c17Roundings = []int{0, 5, 10, 12, 15, 20, 30, 60}

func c17Cells() int {
	return 1440 * len(c17Roundings) * len(c17Selections) * len(c17Layouts) * len(c17Cmds)
}

func genC17(r *Rng, seed int64, index int, tier string) *Scenario {
	total := c17Cells()
	cell := index % total
	cell0 := cell
	if tier != "thorough" {
		// spread a short run over the grid; edge minutes first
		cell = int((uint64(index)*2654435761 + uint64(seed)*97) % uint64(total))
	}
	minute := cell % 1440
	cell /= 1440
	ri := cell % len(c17Roundings)
	cell /= len(c17Roundings)
	si := cell % len(c17Selections)
	cell /= len(c17Selections)
	li := cell % len(c17Layouts)
	cell /= len(c17Layouts)
	ci := cell % len(c17Cmds)
	if tier != "thorough" && r.Chance(1, 3) {
		minute = r.Pick2([]int{r.Range(1410, 1439), r.Range(0, 30), 1439, 0, 1425, 1430, 1435, 1410})
	}
	rounding := c17Roundings[ri]
	w := World{ZoneMin: zones[r.Intn(len(zones))], Cpus: r.Pick2([]int{1, 1, 4}), Env: map[string]string{"NO_COLOR": "1"}}
	zone := time.FixedZone("SIM", w.ZoneMin*60)
	var y, m, d int
	switch r.Intn(8) {
	case 0:
		y, m, d = 2024, 2, 29
	case 1:
		y, m, d = 2024, 3, 1
	case 2:
		y, m, d = 2023, 12, 31
	case 3:
		y, m, d = 2024, 1, 1
	case 4:
		y, m, d = 2023, 3, 1
	default:
		y, m, d = r.Range(2019, 2030), r.Range(1, 12), r.Range(1, 28)
	}
	base := time.Date(y, time.Month(m), d, minute/60, minute%60, r.Intn(60), 0, zone)
	if r.Chance(1, 8) {
		// a zone with daylight saving time, close to an offset change; the minute of the cell is kept where it exists
		var probe time.Time
		w.ZoneName, probe = dstBase(r)
		zone = w.loc()
		base = time.Date(probe.Year(), probe.Month(), probe.Day(), minute/60, minute%60, base.Second(), 0, zone)
		minute = base.Hour()*60 + base.Minute()
		y, m, d = base.Year(), int(base.Month()), base.Day()
	}
	nowStep := 0
	if minute == 1439 && r.Chance(1, 2) {
		// the last second of the day, and time goes by between two readings of the clock: midnight passes while
		// the command runs
		nowStep = r.Pick2([]int{400, 700, 1100})
		base = base.Add(time.Duration(59-base.Second()) * time.Second)
	}
	w.BaseUnix = base.Unix()
	viaConfig := rounding != 0 && r.Chance(1, 3)
	if viaConfig {
		w.CfgRounding = rounding
		w.ConfigIni = fmt.Sprintf("default_rounding = %dm\n", rounding)
	} else if rounding != 0 && r.Chance(1, 5) {
		// both a configured default and the flag: the flag wins
		w.CfgRounding = roundings[r.Intn(len(roundings))]
		w.ConfigIni = fmt.Sprintf("default_rounding = %dm\n", w.CfgRounding)
	}
	// layout
	st := genStyle(r, nil, false)
	mkRec := func(dayOff int, open bool, closedOnly bool) GRecord {
		day := base.AddDate(0, 0, dayOff)
		rec := GRecord{Y: day.Year(), M: int(day.Month()), D: day.Day(), Indent: st.indent, EOL: st.eol, BlankAfter: []string{""}}
		rec.Date = fmtDate(rec.Y, rec.M, rec.D, st.slash)
		if r.Chance(1, 2) {
			rec.Entries = append(rec.Entries, GEntry{Value: "1h", Summary: []string{"work"}})
		}
		if open {
			nowRel := minute - dayOff*1440
			start := nowRel - r.Range(0, 600)
			if r.Chance(1, 8) {
				start = nowRel + r.Range(1, 200) // starts after now
			}
			if start < -1440 {
				start = -1440
			}
			if start > 2879 {
				start = 2879
			}
			dash := "-"
			if st.spaces {
				dash = " - "
			}
			e := GEntry{Value: fmtTime(start, st.twelve, false) + dash + strings.Repeat("?", 1+st.extraQ), Open: true}
			if r.Chance(1, 2) {
				e.Summary = []string{genSummaryText(r)}
			}
			rec.Entries = append(rec.Entries, e)
			if r.Chance(1, 3) {
				// the open range is not the record's last entry (a `track` or `pause` came after the `start`)
				rec.Entries = append(rec.Entries, GEntry{Value: r.Pick([]string{"30m", "-15m", "-0m", "2h"}), Summary: []string{"later"}})
			}
		}
		return rec
	}
	doc := GDoc{FinalNewline: true}
	if r.Chance(1, 2) {
		old := mkRec(-r.Range(2, 9), false, true)
		doc.Records = append(doc.Records, old)
	}
	switch c17Layouts[li] {
	case "today-open":
		doc.Records = append(doc.Records, mkRec(0, true, false))
	case "yesterday-open":
		doc.Records = append(doc.Records, mkRec(-1, true, false))
	case "both-open":
		doc.Records = append(doc.Records, mkRec(-1, true, false), mkRec(0, true, false))
	case "today-closed+yesterday-open":
		doc.Records = append(doc.Records, mkRec(-1, true, false), mkRec(0, false, true))
	}
	if r.Chance(1, 6) {
		// an old record with an open range: --now must refuse
		old := mkRec(-r.Range(2, 5), true, false)
		doc.Records = append([]GRecord{old}, doc.Records...)
	}
	if r.Chance(1, 8) {
		doc.Records = append(doc.Records, mkRec(1, r.Chance(1, 2), false))
	}
	w.setFile("a.klg", doc.render())
	hc := &HistCase{Focus: "C17"}
	var op Op
	if c17Cmds[ci] == "json-now" {
		op = Op{Kind: "json", File: "a.klg", Argv: []string{"json", "--now", "$FILE:a.klg"}}
	} else if c17Cmds[ci] == "today-follow" && tier == "thorough" && (cell0/1440+cell0)%4 != 0 {
		// (a long-running process per cell is costly: in the exhaustive sweep every fourth cell of this command
		// runs in follow mode, the others run the one-shot form once more)
		op = Op{Kind: "today", File: "a.klg", Argv: []string{"today", "-n", "--decimal", "--no-style", "$FILE:a.klg"}}
	} else if c17Cmds[ci] == "today-follow" {
		// a long-running evaluation: refreshed every second until interrupted; time passes (and may jump) meanwhile
		op = Op{Kind: "today", File: "a.klg", Argv: []string{"today", "--now", "--follow", "--decimal", "--no-style", "$FILE:a.klg"}}
		if r.Chance(1, 3) {
			op.Argv = []string{"today", "-nf", "--decimal", "--no-style", "$FILE:a.klg"}
			op.Argv[1] = "-n"
			op.Argv = append([]string{"today", "-n", "-f"}, op.Argv[2:]...)
		}
		op.Cpus = 1 // one refresh per simulated second: keep each of them cheap (no hand-offs between parser goroutines)
		op.Steps = []TimeStep{{AdvanceS: r.Pick2([]int{3, 61, 61, 61, 90, 125})}}
		if minute >= 1436 && r.Chance(1, 2) {
			op.Steps = []TimeStep{{AdvanceS: (1440-minute)*60 + r.Range(1, 90)}} // across midnight
		}
		if r.Chance(1, 6) {
			op.Steps = append(op.Steps, TimeStep{JumpS: r.Pick2([]int{3600, 7200, -1800, 86400})}, TimeStep{AdvanceS: r.Range(2, 70)})
		}
	} else if c17Cmds[ci] == "today-now" {
		op = Op{Kind: "today", File: "a.klg", Argv: []string{"today", "--now", "--decimal", "--no-style", "$FILE:a.klg"}}
	} else if c17Cmds[ci] == "total-now" {
		op = Op{Kind: "total", File: "a.klg", Argv: []string{"total", "--now", "--decimal", "--no-style", "$FILE:a.klg"}}
	} else {
		op = Op{Kind: c17Cmds[ci], File: "a.klg"}
		a := &op.Args
		a.DateSel = c17Selections[si]
		if a.DateSel == "explicit" {
			off := r.Pick2([]int{0, -1, 1, -2, 5})
			a.DY, a.DM, a.DD = addDays(y, m, d, off)
			a.Date = fmtDate(a.DY, a.DM, a.DD, r.Chance(1, 4))
		}
		if rounding != 0 && !viaConfig {
			a.Round = rounding
		}
		if r.Chance(1, 4) {
			a.Summary = []string{genSummaryText(r)}
		}
		if r.Chance(1, 4) {
			op.ArgForm = r.Intn(32)
		}
		op.Plan.NowStepMs = nowStep
		op.renderArgv()
	}
	op.Tape = r.Tape(16, 64)
	hc.Ops = []Op{op}
	hc.World = w
	sc := &Scenario{Format: 1, Property: "C17", Engine: "hist", Seed: seed, Index: index, Tier: tier, Hist: hc}
	return sc
}

func c17CellKey(sc *Scenario) string {
	hc := sc.Hist
	op := hc.Ops[0]
	zone := hc.World.loc()
	t := time.Unix(hc.World.BaseUnix, 0).In(zone)
	r := op.Args.Round
	if r == 0 {
		r = hc.World.CfgRounding
	}
	return fmt.Sprintf("%d|%d|%s|%s|%d", t.Hour()*60+t.Minute(), r, op.Args.DateSel, op.Kind, len(hc.World.file("a.klg")))
}

// ---------------------------------------------------------------------------------------
// shrinking

func (histEngine) shrink(sc *Scenario) []*Scenario {
	var out []*Scenario
	hc := sc.Hist
	add := func(f func(c *HistCase)) {
		c := cloneScenario(sc)
		f(c.Hist)
		out = append(out, c)
	}
	n := len(hc.Ops)
	// drop operations: suffixes first (the violation is at some step k), then chunks
	for k := 1; k < n; k++ {
		k := k
		add(func(c *HistCase) { c.Ops = c.Ops[:k] })
	}
	for size := n / 2; size >= 1; size /= 2 {
		for start := 0; start+size <= n; start += size {
			start, size := start, size
			add(func(c *HistCase) { c.Ops = append(append([]Op{}, c.Ops[:start]...), c.Ops[start+size:]...) })
		}
		if size == 1 {
			break
		}
	}
	// drop faults, simplify choices
	for i := range hc.Ops {
		i := i
		op := hc.Ops[i]
		if op.Plan != (verifsim.FaultPlan{}) {
			add(func(c *HistCase) { c.Ops[i].Plan = verifsim.FaultPlan{} })
		}
		if op.Edit != nil {
			add(func(c *HistCase) { c.Ops[i].Edit = nil })
		}
		if op.JumpS != 0 || op.GapS != 0 {
			add(func(c *HistCase) { c.Ops[i].JumpS, c.Ops[i].GapS = 0, 0 })
		}
		if len(op.Tape) > 0 || len(op.MapTape) > 0 {
			add(func(c *HistCase) { c.Ops[i].Tape, c.Ops[i].MapTape = nil, nil })
		}
		if op.Cpus != 0 {
			add(func(c *HistCase) { c.Ops[i].Cpus = 0 })
		}
		if len(op.Steps) > 1 {
			add(func(c *HistCase) { c.Ops[i].Steps = c.Ops[i].Steps[:len(c.Ops[i].Steps)-1] })
			add(func(c *HistCase) { c.Ops[i].Steps = c.Ops[i].Steps[1:] })
		}
		if op.mutating() && op.Kind != "pause" {
			a := op.Args
			if len(a.Summary) > 1 && !a.Invalid {
				add(func(c *HistCase) { c.Ops[i].Args.Summary = c.Ops[i].Args.Summary[:1]; c.Ops[i].renderArgv() })
			}
			if a.Summary != nil && !a.Invalid {
				add(func(c *HistCase) { c.Ops[i].Args.Summary = nil; c.Ops[i].renderArgv() })
			}
			if a.Entry != nil && len(a.Entry.Summary) > 0 {
				add(func(c *HistCase) { c.Ops[i].Args.Entry.Summary = nil; c.Ops[i].renderArgv() })
			}
		}
	}
	if hc.World.Cpus != 1 {
		add(func(c *HistCase) { c.World.Cpus = 1 })
	}
	if hc.World.ConfigIni != "" {
		add(func(c *HistCase) {
			c.World.ConfigIni, c.World.CfgRounding, c.World.CfgShould, c.World.CfgDateFormat, c.World.CfgTimeConv = "", 0, "", "", ""
		})
	}
	if _, ok := hc.World.Files["b.klg"]; ok {
		add(func(c *HistCase) { delete(c.World.Files, "b.klg"); delete(c.World.FilePreviews, "b.klg") })
	}
	// simplify the initial file: drop record blocks (blank-line separated), then lines
	text := hc.World.file("a.klg")
	for _, t := range shrinkBlocks(text) {
		t := t
		add(func(c *HistCase) { c.World.setFile("a.klg", t) })
	}
	return out
}

// shrinkBlocks removes whole blank-line separated blocks, then single lines.
func shrinkBlocks(text string) []string {
	var out []string
	lines := strings.SplitAfter(text, "\n")
	var blocks [][]string
	var cur []string
	for _, l := range lines {
		cur = append(cur, l)
		if strings.Trim(l, " \t\r\n") == "" {
			blocks = append(blocks, cur)
			cur = nil
		}
	}
	if len(cur) > 0 {
		blocks = append(blocks, cur)
	}
	if len(blocks) > 1 {
		for i := range blocks {
			var b strings.Builder
			for j, blk := range blocks {
				if j != i {
					b.WriteString(strings.Join(blk, ""))
				}
			}
			out = append(out, b.String())
		}
	}
	if len(lines) <= 40 {
		for i := range lines {
			out = append(out, strings.Join(lines[:i], "")+strings.Join(lines[i+1:], ""))
		}
	}
	return out
}
