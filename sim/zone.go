package main

import (
	"sync"
	"time"
	_ "time/tzdata" // the zone database travels with the harness: the host's zoneinfo must not matter
)

// Zones with daylight saving time: the local clock jumps although no time passes (a 23 h or 25 h day, a local
// midnight that does not exist, a calendar day that was skipped). klog works with wall-clock dates and times, so
// "yesterday" and "tomorrow" must be calendar days, never "24 h ago".
type dstZone struct {
	name  string
	dates [][3]int // local dates on which the offset changes
}

var dstZones = []dstZone{
	{"America/New_York", [][3]int{{2024, 3, 10}, {2024, 11, 3}, {2021, 3, 14}}},  // 02:00 -> 03:00, 02:00 -> 01:00
	{"Europe/Berlin", [][3]int{{2024, 3, 31}, {2024, 10, 27}, {2023, 10, 29}}},   // 02:00 -> 03:00, 03:00 -> 02:00
	{"Australia/Lord_Howe", [][3]int{{2024, 4, 7}, {2024, 10, 6}}},               // half-hour shift
	{"America/Havana", [][3]int{{2024, 3, 10}, {2024, 11, 3}}},                   // 00:00 -> 01:00: midnight does not exist
	{"America/Sao_Paulo", [][3]int{{2018, 11, 4}, {2019, 2, 17}, {2018, 2, 18}}}, // 00:00 -> 01:00, 24:00 -> 23:00
	{"Pacific/Apia", [][3]int{{2011, 12, 30}, {2011, 12, 31}, {2011, 12, 29}}},   // 2011-12-30 never happened
	{"Asia/Beirut", [][3]int{{2024, 3, 31}, {2024, 10, 27}}},                     // 00:00 -> 01:00, 24:00 -> 23:00
	{"Europe/London", [][3]int{{2024, 3, 31}, {2024, 10, 27}, {2024, 12, 31}}},   // 01:00 -> 02:00, 02:00 -> 01:00
}

var (
	locMu    sync.Mutex
	locCache = map[string]*time.Location{}
)

// location is the simulated process's time zone: a named zone of the embedded database, or a fixed offset.
func location(zoneMin int, name string) *time.Location {
	if name == "" {
		return time.FixedZone("SIM", zoneMin*60)
	}
	locMu.Lock()
	defer locMu.Unlock()
	if l, ok := locCache[name]; ok {
		return l
	}
	l, err := time.LoadLocation(name)
	if err != nil {
		panic("zone database: " + err.Error())
	}
	locCache[name] = l
	return l
}

func (w *World) loc() *time.Location { return location(w.ZoneMin, w.ZoneName) }

// dstBase draws an instant close to an offset change of a zone with daylight saving time.
func dstBase(r *Rng) (string, time.Time) {
	z := dstZones[r.Intn(len(dstZones))]
	l := location(0, z.name)
	d := z.dates[r.Intn(len(z.dates))]
	off := r.Pick2([]int{-1, 0, 0, 0, 1, 1, 1, 2})
	var minute int
	switch r.Intn(4) {
	case 0:
		minute = r.Intn(1440)
	case 1:
		minute = r.Range(1380, 1439)
	default:
		minute = r.Range(0, 239)
	}
	return z.name, time.Date(d[0], time.Month(d[1]), d[2]+off, minute/60, minute%60, r.Intn(60), 0, l)
}
