package main

// hist engine — C03, C04, C05, C11, C17: histories of klog processes against a real scratch
// disk under a simulated clock, scheduler, map order and fault plan (DESIGN.md §5).

import (
	"encoding/base64"
	"encoding/json"
	"fmt"
	"os"
	"path/filepath"
	"regexp"
	"sort"
	"strconv"
	"strings"
	"time"
	"unicode/utf8"
)

type histEngine struct{}

func init() { engines["hist"] = histEngine{} }

type histWorld struct {
	root  string
	names []string
}

func (hw *histWorld) path(name string) string { return filepath.Join(hw.root, name) }

// snapshot reads every tracked file ("\x00absent" if it does not exist / is not a file).
func (hw *histWorld) snapshot() map[string]string {
	m := map[string]string{}
	for _, n := range hw.names {
		b, err := os.ReadFile(hw.path(n))
		if err != nil {
			m[n] = "\x00absent"
		} else {
			m[n] = string(b)
		}
	}
	return m
}

func (hw *histWorld) restore(m map[string]string) {
	for n, c := range m {
		if c == "\x00absent" {
			os.RemoveAll(hw.path(n))
			continue
		}
		if fi, err := os.Stat(hw.path(n)); err == nil && fi.IsDir() {
			os.RemoveAll(hw.path(n))
		}
		_ = os.WriteFile(hw.path(n), []byte(c), 0o644)
	}
}

// nowReadings: every reading of the simulated clock the process took, in global order, whichever
// goroutine took it (a restructured repeat loop may run the tick callback on a helper goroutine).
func nowReadings(res *ProcResult) []time.Time {
	type rd struct {
		seq int
		t   time.Time
	}
	var rds []rd
	for _, e := range res.Events {
		if strings.HasPrefix(e.What, "now ") {
			if t, err := time.Parse("2006-01-02T15:04:05Z07:00", strings.TrimPrefix(e.What, "now ")); err == nil {
				rds = append(rds, rd{e.Seq, t})
			}
		}
	}
	sort.SliceStable(rds, func(i, j int) bool { return rds[i].seq < rds[j].seq })
	out := make([]time.Time, len(rds))
	for i := range rds {
		out[i] = rds[i].t
	}
	return out
}

func targetName(op *Op, w *World) string {
	if op.File == "" {
		return w.DefaultTarget
	}
	if strings.HasPrefix(op.File, "@") {
		if op.File == "@default" {
			return w.DefaultTarget
		}
		return ""
	}
	return op.File
}

type stepCtx struct {
	sc        *Scenario
	hc        *HistCase
	out       *Outcome
	i         int
	op        *Op
	res       *ProcResult
	writeEdit bool // an edit by somebody else was applied between the command's read and its write
	before    map[string]string
	after     map[string]string
	target    string
	clock     time.Time
	faulted   bool
	// a file was changed by somebody else while the process ran (pause)
	midEdit      *EditFault
	midEditBytes string // content of the target right after the edit ("\x00absent" if removed)
	readsAtEdit  int
	writesAtEdit int
}

func (c *stepCtx) report(prop, rule, site, detail string) {
	v := mkVerdict(prop, rule, site, fmt.Sprintf("step %d `klog %s`: %s", c.i+1, strings.Join(c.op.Argv, " "), detail), c.i+1)
	if prop == c.sc.Property {
		c.out.Verdicts = append(c.out.Verdicts, v)
	} else {
		c.out.Foreign = append(c.out.Foreign, v)
	}
}

func (histEngine) execute(sc *Scenario) *Outcome {
	out := &Outcome{Index: sc.Index}
	hc := sc.Hist
	w := &hc.World
	root, err := mkScratch("hist")
	if err != nil {
		out.Error = err.Error()
		return out
	}
	defer os.RemoveAll(root)
	hw := &histWorld{root: root}
	for n := range w.Files {
		hw.names = append(hw.names, n)
	}
	sort.Strings(hw.names)
	for _, n := range hw.names {
		_ = os.WriteFile(hw.path(n), []byte(w.file(n)), 0o644)
	}
	// relative file arguments (bit 5 of ArgForm) are resolved against the working directory: the scratch root
	if wd, err := os.Getwd(); err == nil {
		if os.Chdir(root) == nil {
			defer os.Chdir(wd)
		}
	}
	cfg := filepath.Join(root, "cfg")
	_ = os.MkdirAll(cfg, 0o755)
	if w.ConfigIni != "" {
		_ = os.WriteFile(filepath.Join(cfg, "config.ini"), []byte(w.ConfigIni), 0o644)
	}
	if w.DefaultTarget != "" {
		bj, _ := json.Marshal([]map[string]string{{"name": "default", "path": hw.path(w.DefaultTarget)}})
		_ = os.WriteFile(filepath.Join(cfg, "bookmarks.json"), bj, 0o644)
	}
	env := map[string]string{"KLOG_CONFIG_HOME": cfg}
	for k, v := range w.Env {
		env[k] = v
	}
	zone := w.loc()
	clock := time.Unix(w.BaseUnix, 0).In(zone)
	out.Log = append(out.Log, fmt.Sprintf("hist focus=%s base=%s cpus=%d cfg=%q", hc.Focus, clock.Format(time.RFC3339), w.Cpus, w.ConfigIni))
	if w.ZoneName != "" {
		out.stat("fired_dst_zone", 1)
		_, o1 := clock.Add(-24 * time.Hour).Zone()
		_, o2 := clock.Add(24 * time.Hour).Zone()
		if o1 != o2 {
			out.stat("fired_dst_offset_change_within_a_day", 1)
		}
	}
	var seq []string
	successes := 0

	for i := range hc.Ops {
		op := &hc.Ops[i]
		if op.GapS != 0 {
			clock = clock.Add(time.Duration(op.GapS) * time.Second)
		}
		if op.JumpS != 0 {
			clock = clock.Add(time.Duration(op.JumpS) * time.Second)
			if op.JumpS > 0 {
				out.stat("fired_clock_jump_fwd", 1)
			} else {
				out.stat("fired_clock_jump_back", 1)
			}
		}
		if op.Edit != nil {
			applyEdit(hw, op.Edit, out)
		}
		cpus := op.Cpus
		if cpus == 0 {
			cpus = w.Cpus
		}
		before := hw.snapshot()
		spec := &ProcSpec{Argv: resolveArgv(op.Argv, root, op.ArgForm&32 != 0), Tape: op.Tape, MapTape: op.MapTape, MapOrder: op.MapOrder, Plan: op.Plan,
			Base: clock, ZoneMin: w.ZoneMin, ZoneName: w.ZoneName, Root: root, Stdin: op.Stdin, Cpus: cpus, Env: env, Steps: op.Steps, LongRun: op.Kind == "pause" || op.follows()}
		c := &stepCtx{sc: sc, hc: hc, out: out, i: i, op: op}
		if op.WriteEdit != nil {
			we := op.WriteEdit
			spec.BeforeFirstWrite = func() {
				applyEdit(hw, we, out)
				c.writeEdit = true
			}
		}
		spec.OnEdit = func(e *EditFault, reads, writes int) {
			applyEdit(hw, e, out)
			c.midEdit, c.readsAtEdit, c.writesAtEdit = e, reads, writes
			c.midEditBytes = hw.snapshot()[targetName(op, w)]
			out.stat("fired_mid_run_edit", 1)
		}
		res := runProc(spec)
		after := hw.snapshot()
		out.Procs++
		out.SimMillis += res.ElapsedSim.Milliseconds()
		if !res.EndClock.IsZero() {
			clock = res.EndClock.In(zone)
		}
		out.Log = append(out.Log, fmt.Sprintf("op %d %v at %s", i+1, op.Argv, spec.Base.Format(time.RFC3339)))
		out.Log = append(out.Log, res.logLines()...)
		for _, n := range hw.names {
			out.Log = append(out.Log, fmt.Sprintf("disk %s %s", n, fnv(after[n])))
			out.measure("file_states", fnv(after[n]))
		}
		out.measure("command_lines", fnv(strings.Join(op.Argv, " ")))
		if len(res.Decisions) > 0 {
			out.measure("schedule_traces", fnv(fmt.Sprint(schedTrace(res))))
		}
		out.measure("clock_minutes", spec.Base.Format("15:04"))
		for k, v := range res.Fired {
			out.stat("fired_"+k, v)
		}
		c.res, c.before, c.after, c.target, c.clock = &res, before, after, targetName(op, w), spec.Base
		// An injected kill or torn write ends the process: no claim for that step. An injected
		// I/O *error* (failed write, read, open, rename, close, sync) may legitimately be handled
		// (retry, fall-back to another write strategy): if klog nevertheless reports success the
		// step is judged in full like any other; if it reports failure no claim is made about
		// the bytes (os.WriteFile truncates before it fails).
		errFault := res.Fired["write_error"] > 0 || res.Fired["read_error"] > 0 || res.Fired["meta_error"] > 0
		c.faulted = res.Killed || res.Fired["torn_write"] > 0 || (errFault && res.Failed)
		if errFault && !res.Failed {
			out.stat("io_error_survived_with_success", 1)
		}
		c.judge()
		outcome := "ok"
		if res.Failed {
			outcome = "fail"
		}
		if c.faulted {
			outcome = "fault"
		}
		seq = append(seq, op.Kind+":"+outcome)
		if op.mutating() && !res.Failed && !c.faulted {
			successes++
		}
		out.stat("op_"+op.Kind, 1)
		out.stat("outcome_"+outcome, 1)

		// C11 determinism: the same (disk, command, config, clock) under other map orders,
		// CPU counts and schedules must produce the same bytes, output and exit status
		if hc.Focus == "C11" && op.mutating() && !c.faulted {
			c.determinism(hw, spec, env)
		}
	}
	if successes >= 2 && (sc.Property == "C04" || sc.Property == "C19") {
		out.Distinct = append(out.Distinct, fnv(strings.Join(seq, ",")))
	}
	if sc.Property == "C17" {
		out.Distinct = append(out.Distinct, c17CellKey(sc))
	}
	if sc.Index%53 == 0 {
		var argvs []string
		for _, op := range hc.Ops {
			argvs = append(argvs, strings.Join(op.Argv, " "))
		}
		out.Sample = map[string]any{"index": sc.Index, "base": time.Unix(w.BaseUnix, 0).In(zone).Format(time.RFC3339), "cpus": w.Cpus, "config": w.ConfigIni,
			"file_a": shortText(w.file("a.klg"), 240), "ops": argvs, "outcomes": seq}
	}
	out.finish()
	return out
}

func applyEdit(hw *histWorld, e *EditFault, out *Outcome) {
	p := hw.path(e.File)
	switch e.Kind {
	case "user_edit", "bitrot":
		b, _ := base64.StdEncoding.DecodeString(e.NewB64)
		_ = os.WriteFile(p, b, 0o644)
	case "append_record":
		// somebody else (another klog process, an editor) adds a record at the end of the file as it is now
		b, err := os.ReadFile(p)
		if err != nil {
			return
		}
		t := string(b)
		if t != "" && !strings.HasSuffix(t, "\n") {
			t += "\n"
		}
		t += "\n1999-12-31\n    30m added by somebody else\n"
		_ = os.WriteFile(p, []byte(t), 0o644)
	case "drop_first_record":
		// somebody else saves a shorter version: the first record (up to and including the blank lines after it) is gone
		b, err := os.ReadFile(p)
		if err != nil {
			return
		}
		lines := strings.SplitAfter(string(b), "\n")
		i := 0
		for i < len(lines) && strings.Trim(lines[i], " \t\r\n") != "" {
			i++
		}
		for i < len(lines) && strings.Trim(lines[i], " \t\r\n") == "" {
			i++
		}
		_ = os.WriteFile(p, []byte(strings.Join(lines[i:], "")), 0o644)
	case "remove":
		_ = os.RemoveAll(p)
	case "mkdir":
		_ = os.RemoveAll(p)
		_ = os.MkdirAll(p, 0o755)
	}
	out.stat("fired_"+e.Kind, 1)
}

func parseState(text string) (MState, bool) {
	if text == "\x00absent" {
		return nil, false
	}
	d := parseSerialDumpRecords(text)
	if d == nil {
		return nil, false
	}
	return stateFromDump(d), true
}

func (c *stepCtx) judge() {
	op, res := c.op, c.res
	out := c.out
	w := &c.hc.World
	cmdSite := op.Kind

	// --- crashes and hangs (any command) ---
	if res.Crashed {
		prop := "C04"
		if !op.mutating() {
			prop = "C06"
		}
		if c.clockRelative() {
			prop = "C17"
		}
		c.report(prop, "panic", res.PanicSite, "klog crashed: "+res.PanicValue)
		// (not for pause: it legitimately writes once per tick, a crash in a later tick — e.g. on
		// a file somebody else damaged meanwhile — does not undo the earlier ticks)
		if c.sc.Property == "C05" && op.mutating() && op.Kind != "pause" && c.midEdit == nil && c.before[c.target] != c.after[c.target] {
			c.report("C05", "crash-after-write", res.PanicSite, "klog crashed after changing the file: "+res.PanicValue)
		}
		return
	}
	if res.Hang {
		prop := "C04"
		if !op.mutating() {
			prop = "C06"
		}
		c.report(prop, "hang", cmdSite, "the command never finished")
		return
	}
	if c.writeEdit {
		// somebody else saved the file between this command's read and its write: whose version survives is not
		// for the properties to say, but a command that reports success must still leave a file that parses
		out.stat("edit_between_read_and_write_judged", 1)
		if op.mutating() && !res.Failed && !c.faulted {
			if _, ok := parseState(c.after[c.target]); !ok {
				c.report("C05", "success-invalid-file", cmdSite, fmt.Sprintf("somebody else saved the file between klog's read and klog's write; klog reported success and the file no longer parses: %q", shortText(c.after[c.target], 300)))
			}
		}
		return
	}
	if !op.mutating() {
		if !c.faulted {
			c.judgeReadOnly()
		}
		return
	}

	if c.midEdit != nil {
		c.judgeMidEdit()
		return
	}
	beforeT, hasTarget := c.before[c.target]
	afterT := c.after[c.target]
	prevState, prevValid := MState(nil), false
	if hasTarget {
		prevState, prevValid = parseState(beforeT)
	}
	othersChanged := ""
	for n, b := range c.before {
		if n != c.target && c.after[n] != b {
			othersChanged = n
		}
	}

	// --- C05 ---
	if othersChanged != "" {
		c.report("C05", "other-file-changed", cmdSite, "a file that is not the target changed: "+othersChanged)
	}
	if c.faulted {
		out.stat("faulted_steps", 1)
		if res.Fired["torn_write"] > 0 {
			out.stat("torn_states_reached", 1)
		}
		if res.Fired["kill"] > 0 && res.Fired["torn_write"] == 0 && res.Fired["write_error"] == 0 && prevValid && hasTarget {
			// killed between two seam events: every write that happened was complete
			if _, ok := parseState(afterT); !ok {
				c.report("C05", "kill-left-invalid-file", cmdSite, fmt.Sprintf("process killed at seam event %d left an unparseable file: %q", op.Plan.KillAtEvent, shortText(afterT, 300)))
			}
		}
		if hasTarget && afterT != beforeT && c.sc.Property == "C05" {
			c.out.Distinct = append(c.out.Distinct, fnv("fault|"+beforeT+"|"+strings.Join(op.Argv, " ")+"|"+afterT))
		}
		return
	}
	if res.Failed {
		if res.ExitCode == 0 {
			c.report("C05", "failure-exit-0", cmdSite, "klog reported an error but the exit status is 0: "+shortText(res.ErrText, 200))
		}
		if hasTarget && afterT != beforeT {
			c.report("C05", "failure-but-wrote", cmdSite, fmt.Sprintf("klog failed (%s) but the file changed: before=%q after=%q", shortText(res.ErrText, 120), shortText(beforeT, 300), shortText(afterT, 300)))
		}
		if c.sc.Property == "C05" {
			out.Distinct = append(out.Distinct, fnv("fail|"+beforeT+"|"+strings.Join(op.Argv, " ")))
		}
	}
	obsState, obsValid := MState(nil), false
	if hasTarget || c.target != "" {
		obsState, obsValid = parseState(afterT)
	}
	if !res.Failed && c.target != "" {
		if !obsValid {
			c.report("C05", "success-invalid-file", cmdSite, fmt.Sprintf("klog reported success but the file does not parse: %q", shortText(afterT, 400)))
		}
	}
	if !prevValid {
		// invalid, missing or unreadable target: the command must fail (and, above, not write)
		if !res.Failed {
			c.report("C05", "invalid-target-accepted", cmdSite, fmt.Sprintf("target %q is not a valid file but klog reported success", c.target))
		}
		out.stat("invalid_target_steps", 1)
		return
	}

	if !utf8.ValidString(beforeT) {
		// The format requires UTF-8. A file with invalid bytes (what a torn or failed write leaves when it
		// cuts a multi-byte character) is accepted by klog but is not a valid file in the sense of C03, C04
		// and C11 (klog drops the rest of a summary line after the invalid byte when it re-reads it).
		out.stat("not_utf8_steps", 1)
		return
	}

	// --- C03 ---
	var c03 c03Result
	if !res.Failed {
		c03 = checkC03(op.Kind, beforeT, afterT)
		if !c03.ok {
			c.report("C03", c03.rule, cmdSite, fmt.Sprintf("%s; before=%q after=%q", c03.detail, shortText(beforeT, 400), shortText(afterT, 400)))
		}
		if c.sc.Property == "C03" && strings.Trim(beforeT, " \t\r\n") != "" {
			out.Distinct = append(out.Distinct, fnv("c03|"+beforeT+"|"+strings.Join(op.Argv, " ")))
		}
	}

	// --- C04 / C17 (model) ---
	mc := &modelCtx{w: w, clk: mkClock(c.clock), openTrailingBlank: openTrailingBlankRe.MatchString(c.before[c.target])}
	var outcomes []MOutcome
	var partial []MState
	if op.Kind == "pause" {
		rd := nowReadings(res)
		if len(rd) >= 1 {
			mc.clk = mkClock(rd[0])
		}
		t0 := c.clock
		var ticks []time.Time
		if len(rd) >= 2 {
			t0 = rd[1]
			ticks = rd[2:]
		}
		outcomes, partial = mc.applyPause(prevState, op, t0, ticks)
		_ = partial
		out.stat("pause_ticks", len(ticks))
	} else {
		outcomes = mc.apply(prevState, op)
		if op.Plan.NowStepMs != 0 {
			// the clock moved while the command ran: the effect must be the one of SOME instant between the first
			// and the last reading (date and time taken from one and the same instant)
			seen := map[string]bool{c.clock.Format("2006-01-02T15:04"): true}
			for _, t := range nowReadings(res) {
				t = t.In(c.clock.Location())
				if k := t.Format("2006-01-02T15:04"); !seen[k] {
					seen[k] = true
					alt := *mc
					alt.clk = mkClock(t)
					outcomes = append(outcomes, alt.apply(prevState, op)...)
					out.stat("clock_minute_changed_during_command", 1)
				}
			}
		}
	}
	matched := c.match(outcomes, obsState, obsValid)
	if matched == nil {
		c.modelViolation(outcomes, prevState, obsState, obsValid)
	}
	if matched == nil && op.Kind == "switch" && obsValid && c.after[c.target] != c.before[c.target] {
		// C05: is what was written exactly the first step of the two-step edit?
		half := *op
		half.Kind = "stop"
		half.Args.Summary, half.Args.Resume, half.Args.ResumeNth = nil, false, 0
		if half.Args.DateSel == "" {
			half.Args.DateSel = "today" // no fall-back to yesterday for switch
		}
		for _, o := range mc.apply(prevState, &half) {
			if !o.Reject && stateEqual(o.State, obsState) {
				c.report("C05", "partial-edit-written", "switch", fmt.Sprintf("only the first step of switch (closing the open range) was written; the second step cannot succeed here; file before=%q after=%q", shortText(c.before[c.target], 300), shortText(c.after[c.target], 300)))
				break
			}
		}
	}
	c.probes(mc, matched, prevState)

	// --- C11 style ---
	if !res.Failed && c03.ok && obsValid && matched != nil && !matched.Reject {
		// an inserted line that equals its neighbour makes the position of the new block
		// ambiguous: the style is fine if it is fine under any valid alignment
		alts := c03.alts
		if len(alts) == 0 {
			alts = []c03Result{c03}
		}
		var firstBad *Verdict
		okAny := false
		for k := range alts {
			if v := c.styleCheck(beforeT, afterT, &alts[k], matched); v == nil {
				okAny = true
				break
			} else if firstBad == nil {
				firstBad = v
			}
		}
		if !okAny && firstBad != nil {
			c.report("C11", firstBad.Rule, firstBad.Site, firstBad.Detail)
		}
	}
}

// probes count the rare conditions the search is meant to reach (evidence only).
func (c *stepCtx) probes(mc *modelCtx, matched *MOutcome, prev MState) {
	op := c.op
	if matched == nil {
		return
	}
	st := func(k string) { c.out.stat("probe_"+k, 1) }
	if matched.Reject {
		st("model_reject_" + op.Kind)
		switch {
		case strings.Contains(matched.Why, "representable"):
			st("time_unrepresentable_refused")
		case strings.Contains(matched.Why, "second open range"):
			st("second_open_range_refused")
		case strings.Contains(matched.Why, "end before start"):
			st("end_before_start_refused")
		case strings.Contains(matched.Why, "resume"):
			st("resume_rejected")
		}
		return
	}
	if c.clockRelative() {
		y, m, d := mc.clk.targetDate(&op.Args)
		if t, ok, _ := mc.clk.targetTime(&op.Args, &c.hc.World, y, m, d); ok {
			mnow := c.clock.Hour()*60 + c.clock.Minute()
			if t%1440 == 0 && mnow%1440 != 0 {
				st("rounding_carried_to_midnight")
			}
			if t != mnow {
				st("time_rounded_or_shifted")
			}
		}
		if op.Kind == "stop" && matched.Target >= 0 && matched.Target < len(matched.State) {
			r := matched.State[matched.Target]
			if r.key() != dateKey(y, m, d) {
				st("stop_fell_back_to_previous_day")
			}
		}
	}
	if matched.IsNew {
		st("record_created")
		if !prev.sorted() {
			st("record_created_in_unsorted_file")
		}
	}
	if matched.Target >= 0 && len(prev.candidates(matched.State[matched.Target].key())) > 1 {
		st("duplicate_dates_target")
	}
	if op.Kind == "pause" {
		rd := nowReadings(c.res)
		back, jump := false, false
		for i := 2; i < len(rd); i++ {
			d := rd[i].Unix() - rd[i-1].Unix()
			if d < 0 {
				back = true
			}
			if d > 90 {
				jump = true
			}
		}
		if back {
			st("pause_clock_went_back")
		}
		if jump {
			st("pause_clock_jumped_forward")
		}
		if len(rd) > 2 && rd[len(rd)-1].Day() != rd[0].Day() {
			st("pause_across_midnight")
		}
	}
	if op.Args.Resume || op.Args.ResumeNth != 0 {
		st("resume_accepted")
	}
}

// judgeMidEdit: somebody else changed the target while `klog pause` was running (C05).
//   - the edit left an invalid / missing file: klog must not write anything after it, and if it
//     tried to update the pause after the edit it must end with a failure status;
//   - the edit left a valid file: whatever klog wrote afterwards must be that file plus pause
//     edits (no stale content written back), and the file must still parse.
func (c *stepCtx) judgeMidEdit() {
	res := c.res
	if c.faulted || res.Killed {
		return
	}
	E, A := c.midEditBytes, c.after[c.target]
	triedAfter := res.Reads > c.readsAtEdit
	wroteAfter := res.Writes > c.writesAtEdit
	c.out.stat("mid_run_edit_judged", 1)
	if triedAfter {
		c.out.stat("mid_run_edit_seen_by_klog", 1)
	}
	_, eValid := parseState(E)
	if c.sc.Property == "C05" {
		c.out.Distinct = append(c.out.Distinct, fnv("midedit|"+E+"|"+A))
	}
	if !eValid {
		if A != E {
			c.report("C05", "wrote-over-invalid-edit", "pause", fmt.Sprintf("the file was changed into something unparseable while pause ran; klog must leave it alone but the bytes changed: %q -> %q", shortText(E, 300), shortText(A, 300)))
		}
		if triedAfter && !res.Failed {
			c.report("C05", "failure-exit-0", "pause", "pause could not update the (now unparseable / missing) file but ended with exit status 0")
		}
		return
	}
	if _, ok := parseState(A); !ok {
		c.report("C05", "success-invalid-file", "pause", fmt.Sprintf("after an edit by somebody else during the pause the file no longer parses: %q", shortText(A, 300)))
		return
	}
	if wroteAfter || A != E {
		if r := checkC03("pause", E, A); !r.ok {
			// the lines somebody else added are lines of the file that the later pause update must not touch
			c.report("C03", "concurrent-edit-lost", "pause", fmt.Sprintf("the file was edited while pause ran; klog's next update did not keep the lines of that file (%s): edited=%q after=%q", r.detail, shortText(E, 300), shortText(A, 300)))
			c.report("C05", "stale-content-written-back", "pause", fmt.Sprintf("the file was edited while pause ran; what klog wrote afterwards is not that file plus pause edits (%s): edited=%q after=%q", r.detail, shortText(E, 300), shortText(A, 300)))
		}
	}
}

// clockRelative: the operation derives its time from the clock.
func (c *stepCtx) clockRelative() bool {
	switch c.op.Kind {
	case "start", "stop", "switch":
		return c.op.Args.Time == nil
	}
	return false
}

// match returns the model outcome that klog's behaviour corresponds to, or nil.
func (c *stepCtx) match(outcomes []MOutcome, obs MState, obsValid bool) *MOutcome {
	for i := range outcomes {
		o := &outcomes[i]
		if o.Reject {
			if c.res.Failed {
				return o
			}
			continue
		}
		if !c.res.Failed && obsValid && stateEqual(o.State, obs) {
			return o
		}
	}
	return nil
}

func (c *stepCtx) modelViolation(outcomes []MOutcome, prev, obs MState, obsValid bool) {
	op, res := c.op, c.res
	allReject, anyReject := true, false
	why := ""
	for _, o := range outcomes {
		if o.Reject {
			anyReject = true
			why = o.Why
		} else {
			allReject = false
		}
	}
	prop := "C04"
	rule := "model-mismatch-" + op.Kind
	detail := ""
	switch {
	case res.Failed && !anyReject:
		rule = "accept-but-failed"
		detail = fmt.Sprintf("the model accepts this command but klog failed with: %s", shortText(res.ErrText, 300))
		if c.clockRelative() && strings.Contains(res.ErrText, "ime") && false {
			prop = "C17"
		}
	case !res.Failed && allReject:
		rule = "reject-but-succeeded"
		detail = fmt.Sprintf("the model rejects this command (%s) but klog succeeded", why)
		if strings.Contains(why, "representable") || strings.Contains(why, "no time given") || strings.Contains(why, "no record at the selected date") {
			prop = "C17"
		}
		if op.Kind == "stop" && op.Args.DateSel != "explicit" && op.Args.Time == nil && obsValid && len(prev) == len(obs) {
			// C17: "stop falls back to yesterday's record only when there is no record for today"
			clk := mkClock(c.clock)
			ty, tm, td := clk.targetDate(&op.Args)
			py, pm, pd := addDays(ty, tm, td, -1)
			if len(prev.candidates(dateKey(ty, tm, td))) > 0 {
				for i := range prev {
					if prev[i].key() == dateKey(py, pm, pd) && !recEqual(&prev[i], &obs[i]) {
						prop = "C17"
						rule = "fell-back-although-record-exists"
						detail = fmt.Sprintf("a record for the selected date exists (it cannot be stopped: %s), yet the open range of the previous day's record was closed: %s", why, obs[i].String())
					}
				}
			}
		}
	default:
		exp := "<none>"
		for _, o := range outcomes {
			if !o.Reject {
				exp = o.State.String()
				break
			}
		}
		detail = fmt.Sprintf("records after the command differ from every allowed outcome (%d). expected e.g.: %s | observed: %s", len(outcomes), shortText(exp, 700), shortText(obs.String(), 700))
		// is the deviation confined to the clock-derived time?
		if c.clockRelative() && obsValid {
			for _, o := range outcomes {
				if !o.Reject && stateEqualModuloTime(o.State, obs, o.Target) {
					prop = "C17"
					rule = "wrong-time-" + op.Kind
					detail = fmt.Sprintf("the time written differs from the clock rule: expected %s | observed %s", o.State[o.Target].String(), obs[o.Target].String())
					break
				}
			}
		}
	}
	if rule == "accept-but-failed" && c.clockRelative() {
		// a refusal where the clock rule yields a representable time is a C17 matter only if
		// the same command with the time made explicit is accepted; that cannot be told here,
		// so it stays under C04.
	}
	c.report(prop, rule, op.Kind, detail+fmt.Sprintf(" | now=%s file before=%q", c.clock.Format("2006-01-02T15:04:05"), shortText(c.before[c.target], 500)))
}

// stateEqualModuloTime compares two states ignoring start/end of the entries of record idx.
func stateEqualModuloTime(exp, obs MState, idx int) bool {
	if len(exp) != len(obs) || idx < 0 || idx >= len(exp) {
		return false
	}
	e2 := exp.clone()
	for j := range e2[idx].Entries {
		if j < len(obs[idx].Entries) && e2[idx].Entries[j].Kind == obs[idx].Entries[j].Kind && e2[idx].Entries[j].Kind != "duration" {
			e2[idx].Entries[j].Start = obs[idx].Entries[j].Start
			e2[idx].Entries[j].End = obs[idx].Entries[j].End
		}
	}
	return stateEqual(e2, obs)
}

// ---------------------------------------------------------------------------------------
// read-only commands: --now evaluation (C17)

type jsonEnvelope struct {
	Records []struct {
		Date      string `json:"date"`
		TotalMins int    `json:"total_mins"`
		Entries   []struct {
			Type      string `json:"type"`
			TotalMins int    `json:"total_mins"`
			StartMins int    `json:"start_mins"`
		} `json:"entries"`
	} `json:"records"`
	Errors []any `json:"errors"`
}

// nowExpectation: per-record totals of `--now` evaluated at the wall-clock instant `at`, or the reason why klog
// must refuse.
func nowExpectation(st MState, at time.Time) (expected []int, refuse string) {
	clk := mkClock(at)
	nowM := at.Hour()*60 + at.Minute()
	today := dateKey(clk.ty, clk.tm, clk.td)
	yesterday := dateKey(addDays(clk.ty, clk.tm, clk.td, -1))
	expected = make([]int, len(st))
	for i := range st {
		total := 0
		for _, e := range st[i].Entries {
			switch e.Kind {
			case "duration":
				total += e.Mins
			case "range":
				total += e.End - e.Start
			case "open":
				var end int
				switch st[i].key() {
				case today:
					end = nowM
				case yesterday:
					end = nowM + 1440
				default:
					refuse = "open range in a record that is neither today's nor yesterday's"
					continue
				}
				if end < e.Start {
					refuse = "open range starts after now"
					continue
				}
				total += end - e.Start
			}
		}
		expected[i] = total
	}
	return expected, refuse
}

var todayAllRe = regexp.MustCompile(`(?m)^All\s+(-?\d+)\s*$`)

// judgeFollow: `klog today --now --follow` re-evaluates once per second until it is interrupted. The last screen
// must show the total as of (about) the instant of the interrupt, not as of the launch.
func (c *stepCtx) judgeFollow(st MState) {
	res := c.res
	_, refuseStart := nowExpectation(st, c.clock)
	end := res.EndClock.In(c.clock.Location())
	_, refuseEnd := nowExpectation(st, end)
	c.out.stat("follow_runs", 1)
	if (refuseStart != "") != (refuseEnd != "") {
		c.out.stat("follow_refusal_changed_during_run_not_judged", 1)
		return
	}
	if refuseStart != "" {
		if !res.Failed {
			c.report("C17", "now-not-refused", "today-follow", "--now must be refused ("+refuseStart+") but `today --follow` kept running")
		}
		return
	}
	if res.Failed {
		c.report("C17", "now-refused", "today-follow", "--now is applicable at every instant of the run but klog failed: "+shortText(res.ErrText+res.Stdout, 200))
		return
	}
	screens := strings.Split(res.Stdout, "\x1b[H\x1b[J")
	last := screens[len(screens)-1]
	m := todayAllRe.FindStringSubmatch(last)
	if m == nil {
		c.out.stat("today_now_not_parsed", 1)
		return
	}
	got, _ := strconv.Atoi(m[1])
	var wants []int
	for _, back := range []int{0, 1, 2} { // the last refresh happened at most one tick (1 s) before the interrupt
		exp, refuse := nowExpectation(st, end.Add(-time.Duration(back)*time.Second))
		if refuse != "" {
			return
		}
		sum := 0
		for _, e := range exp {
			sum += e
		}
		if sum == got {
			c.out.stat("follow_last_screen_checked", 1)
			if end.Sub(c.clock) >= time.Minute {
				c.out.stat("follow_minute_passed_during_run", 1)
			}
			if end.YearDay() != c.clock.YearDay() {
				c.out.stat("follow_midnight_passed_during_run", 1)
			}
			return
		}
		wants = append(wants, sum)
	}
	c.report("C17", "now-total", "today-follow", fmt.Sprintf("the last screen of `today --now --follow` (launched %s, interrupted %s, %d screens) shows %d minutes in total, expected one of %v (file=%q)",
		c.clock.Format("2006-01-02T15:04:05"), end.Format("2006-01-02T15:04:05"), len(screens)-1, got, wants, shortText(c.before[c.target], 300)))
}

func (c *stepCtx) judgeReadOnly() {
	op, res := c.op, c.res
	if (op.Kind != "json" && op.Kind != "total" && op.Kind != "today") || !(containsArg(op.Argv, "--now") || containsArg(op.Argv, "-n")) || c.target == "" {
		return
	}
	st, ok := parseState(c.before[c.target])
	if !ok {
		return
	}
	if op.follows() {
		c.judgeFollow(st)
		return
	}
	expected, refuse := nowExpectation(st, c.clock)
	c.out.stat("now_evaluations", 1)
	if refuse != "" {
		c.out.stat("now_refusals_expected", 1)
		if !res.Failed {
			c.report("C17", "now-not-refused", op.Kind, "--now must be refused ("+refuse+") but klog succeeded: "+shortText(res.Stdout, 300))
		}
		return
	}
	if res.Failed {
		c.report("C17", "now-refused", op.Kind, "--now is applicable to every open range but klog failed: "+shortText(res.ErrText, 200))
		return
	}
	if op.Kind == "today" {
		// `today --now --decimal --no-style`: the line "All <minutes>" is the grand total; any other shape is not judged
		m := todayAllRe.FindStringSubmatch(res.Stdout)
		if m == nil || !containsArg(op.Argv, "--decimal") {
			c.out.stat("today_now_not_parsed", 1)
			return
		}
		want := 0
		for _, e := range expected {
			want += e
		}
		got, _ := strconv.Atoi(m[1])
		if got != want {
			c.report("C17", "now-total", "today", fmt.Sprintf("`today --now` reports %d minutes in total, expected %d (now=%s, file=%q)", got, want, c.clock.Format("2006-01-02T15:04"), shortText(c.before[c.target], 300)))
		}
		return
	}
	if op.Kind == "total" {
		// `total --now --decimal --no-style`: first line "Total: <minutes>"; any other shape is not judged
		m := regexp.MustCompile(`^Total: (-?\d+)\n`).FindStringSubmatch(res.Stdout)
		if m == nil || !containsArg(op.Argv, "--decimal") {
			c.out.stat("total_now_not_parsed", 1)
			return
		}
		want := 0
		for _, e := range expected {
			want += e
		}
		got, _ := strconv.Atoi(m[1])
		if got != want {
			c.report("C17", "now-total", "total", fmt.Sprintf("`total --now` reports %d minutes, expected %d (now=%s, file=%q)", got, want, c.clock.Format("2006-01-02T15:04"), shortText(c.before[c.target], 300)))
		}
		return
	}
	var env jsonEnvelope
	if err := json.Unmarshal([]byte(res.Stdout), &env); err != nil || env.Records == nil {
		c.report("C17", "now-output", "json", "cannot decode the JSON output: "+shortText(res.Stdout, 200))
		return
	}
	if len(env.Records) != len(expected) {
		c.report("C17", "now-output", "json", fmt.Sprintf("%d records in the output, %d in the file", len(env.Records), len(expected)))
		return
	}
	for i := range expected {
		if env.Records[i].TotalMins != expected[i] {
			c.report("C17", "now-total", "json", fmt.Sprintf("record %s: total with --now is %d, expected %d (now=%s, record=%s)", env.Records[i].Date, env.Records[i].TotalMins, expected[i], c.clock.Format("2006-01-02T15:04"), st[i].String()))
			return
		}
	}
}

func containsArg(argv []string, a string) bool {
	for _, x := range argv {
		if x == a {
			return true
		}
	}
	return false
}

// ---------------------------------------------------------------------------------------
// C11

func setOf(m map[string]bool) string {
	var ks []string
	for k := range m {
		ks = append(ks, fmt.Sprintf("%q", k))
	}
	sort.Strings(ks)
	return "{" + strings.Join(ks, ",") + "}"
}

func (c *stepCtx) styleCheck(before, after string, c03 *c03Result, mo *MOutcome) *Verdict {
	op := c.op
	w := &c.hc.World
	facts := fileFacts(before)
	var target *recFacts
	if !mo.IsNew && mo.Target >= 0 && mo.Target < len(facts) && op.Kind != "create" {
		target = &facts[mo.Target]
	}
	// allowed sets per dimension
	eols := map[string]bool{}
	indentsAllowed := map[string]bool{}
	conv := map[string]bool{}
	dash := map[string]bool{}
	ph := map[int]bool{}
	slash := map[bool]bool{}
	union := func(skipTarget bool) {
		for i := range facts {
			f := &facts[i]
			if skipTarget && target != nil && f == target {
				continue
			}
			for k := range f.EOLs {
				eols[k] = true
			}
		}
	}
	if target != nil && len(target.EOLs) > 0 {
		for k := range target.EOLs {
			eols[k] = true
		}
	} else {
		union(false)
	}
	if len(eols) == 0 {
		eols["\n"] = true
	}
	if target != nil && target.Indent != "" {
		indentsAllowed[target.Indent] = true
	} else {
		for i := range facts {
			if facts[i].Indent != "" {
				indentsAllowed[facts[i].Indent] = true
			}
		}
	}
	if len(indentsAllowed) == 0 {
		indentsAllowed["    "] = true
	}
	pick := func(get func(f *recFacts) map[string]bool, dst map[string]bool, def string) {
		if target != nil && len(get(target)) > 0 {
			for k := range get(target) {
				dst[k] = true
			}
			return
		}
		for i := range facts {
			for k := range get(&facts[i]) {
				dst[k] = true
			}
		}
		if len(dst) == 0 {
			dst[def] = true
		}
	}
	pick(func(f *recFacts) map[string]bool { return f.Conv }, conv, "24h")
	pick(func(f *recFacts) map[string]bool { return f.Dash }, dash, "spaced")
	if target != nil && len(target.Placeholder) > 0 {
		for k := range target.Placeholder {
			ph[k] = true
		}
	} else {
		for i := range facts {
			for k := range facts[i].Placeholder {
				ph[k] = true
			}
		}
	}
	if len(ph) == 0 {
		ph[1] = true
	}
	for i := range facts {
		if facts[i].Slash != nil {
			slash[*facts[i].Slash] = true
		}
	}
	if len(slash) == 0 {
		slash[false] = true
	}
	if w.CfgTimeConv != "" {
		conv = map[string]bool{w.CfgTimeConv: true}
	}
	if w.CfgDateFormat != "" {
		slash = map[bool]bool{w.CfgDateFormat == "YYYY/MM/DD": true}
	}
	c.out.stat("style_checks", 1)
	tie := len(eols) > 1 || len(indentsAllowed) > 1 || (target == nil && (len(conv) > 1 || len(slash) > 1))
	if tie || target == nil || (target != nil && target.Indent == "") {
		c.out.stat("style_election_needed", 1)
		if c.sc.Property == "C11" {
			c.out.Distinct = append(c.out.Distinct, fnv("c11|"+before+"|"+strings.Join(op.Argv, " ")))
		}
	}

	A := splitRawLines(after)
	// line endings of added lines, and of a newline added to the former last line
	for k, l := range c03.inserted {
		isLastOfFile := c03.p+k == len(A)-1
		if l.EOL == "" && isLastOfFile {
			continue
		}
		if !eols[l.EOL] {
			return &Verdict{Rule: "style-line-ending", Site: op.Kind, Detail: fmt.Sprintf("added line %q ends in %q, allowed %s; before=%q after=%q", l.Text, l.EOL, setOf(eols), shortText(before, 300), shortText(after, 300))}
		}
	}
	for i, cs := range c03.changes {
		for _, ch := range cs {
			if ch.kind == "eol-added" {
				j := i
				if i >= c03.p {
					j = i + c03.n
				}
				if !eols[A[j].EOL] {
					return &Verdict{Rule: "style-line-ending", Site: op.Kind, Detail: fmt.Sprintf("newline added to the former last line is %q, allowed %s", A[j].EOL, setOf(eols))}
				}
			}
		}
	}
	// indentation of added entry lines
	unit := ""
	for _, l := range c03.inserted {
		if isBlankText(l.Text) {
			continue
		}
		ws := leadingWS(l.Text)
		if ws == "" {
			continue
		}
		if op.Kind == "stop" {
			// continuation lines of the closed entry: twice the record's own indentation
			if target != nil && target.Indent != "" && !strings.HasPrefix(ws, target.Indent+target.Indent) {
				return &Verdict{Rule: "style-indentation", Site: op.Kind, Detail: fmt.Sprintf("summary line %q is indented with %q, the record uses %q twice", l.Text, ws, target.Indent)}
			}
			continue
		}
		if unit == "" {
			unit = ws
			if !indentsAllowed[unit] {
				return &Verdict{Rule: "style-indentation", Site: op.Kind, Detail: fmt.Sprintf("added entry line %q is indented with %q, allowed %s; before=%q", l.Text, unit, setOf(indentsAllowed), shortText(before, 400))}
			}
			continue
		}
		if ws != unit && !strings.HasPrefix(ws, unit+unit) {
			return &Verdict{Rule: "style-indentation", Site: op.Kind, Detail: fmt.Sprintf("added line %q is indented with %q, the entry started with %q", l.Text, ws, unit)}
		}
	}
	// date of a new record
	if mo.IsNew || op.Kind == "create" {
		for _, l := range c03.inserted {
			if m := dateRe.FindStringSubmatch(l.Text); m != nil && leadingWS(l.Text) == "" {
				dateText := strings.Fields(l.Text)[0]
				if op.Args.DateSel == "explicit" {
					if dateText != op.Args.Date {
						return &Verdict{Rule: "style-date", Site: op.Kind, Detail: fmt.Sprintf("record written as %q although the user passed --date=%s", dateText, op.Args.Date)}
					}
				} else if !slash[m[2] == "/"] {
					return &Verdict{Rule: "style-date", Site: op.Kind, Detail: fmt.Sprintf("date %q does not use a separator the file/config uses (before=%q, date_format=%q)", dateText, shortText(before, 300), w.CfgDateFormat)}
				}
				break
			}
		}
	}
	// generated times
	if op.Args.Time == nil {
		convOf := func(tok string) string {
			if strings.Contains(tok, "am") || strings.Contains(tok, "pm") {
				return "12h"
			}
			return "24h"
		}
		switch op.Kind {
		case "start", "switch":
			for _, l := range c03.inserted {
				ws := leadingWS(l.Text)
				if ws == "" || isBlankText(l.Text) {
					continue
				}
				if m := rangeRe.FindStringSubmatch(l.Text[len(ws):]); m != nil && strings.HasPrefix(m[5], "?") {
					if !conv[convOf(m[1])] {
						return &Verdict{Rule: "style-time-convention", Site: op.Kind, Detail: fmt.Sprintf("start time %q, allowed conventions %s; before=%q", m[1], setOf(conv), shortText(before, 300))}
					}
					d := "tight"
					if m[3] != "" && m[4] != "" {
						d = "spaced"
					}
					if !dash[d] {
						return &Verdict{Rule: "style-dash", Site: op.Kind, Detail: fmt.Sprintf("open range %q is %s, allowed %s; before=%q", m[0], d, setOf(dash), shortText(before, 300))}
					}
					if !ph[len(m[5])] {
						return &Verdict{Rule: "style-placeholder", Site: op.Kind, Detail: fmt.Sprintf("placeholder %q has length %d, allowed lengths %v; before=%q", m[5], len(m[5]), keysOfInt(ph), shortText(before, 300))}
					}
				}
				break
			}
			fallthrough
		case "stop":
			for _, cs := range c03.changes {
				for _, ch := range cs {
					if ch.kind == "placeholder" && !conv[convOf(ch.newTok)] {
						return &Verdict{Rule: "style-time-convention", Site: op.Kind, Detail: fmt.Sprintf("end time %q, allowed conventions %s; before=%q", ch.newTok, setOf(conv), shortText(before, 300))}
					}
				}
			}
		}
	}
	return nil
}

func keysOfInt(m map[int]bool) []int {
	var ks []int
	for k := range m {
		ks = append(ks, k)
	}
	sort.Ints(ks)
	return ks
}

// determinism re-executes the step from the same disk state under other choices.
func (c *stepCtx) determinism(hw *histWorld, spec *ProcSpec, env map[string]string) {
	primaryAfter := c.after
	r := newRng(c.sc.Seed, "det", fmt.Sprint(c.sc.Index), fmt.Sprint(c.i))
	for k := 0; k < 3; k++ {
		hw.restore(c.before)
		alt := *spec
		alt.MapOrder = true
		alt.MapTape = r.Tape(24, 7)
		alt.Tape = r.Tape(64, 64)
		if k == 0 {
			// the reversed canonical order: the cheapest way to flip every two-way tie
			alt.MapTape = []int{1, 1, 1, 1, 1, 1, 1, 1, 1, 1, 1, 1, 1, 1, 1, 1}
		}
		if k == 2 {
			alt.Cpus = []int{1, 2, 3, 4, 5, 8, 33}[r.Intn(7)]
		}
		alt.Plan = spec.Plan
		res := runProc(&alt)
		c.out.Procs++
		after := hw.snapshot()
		c.out.stat("determinism_reruns", 1)
		c.out.Log = append(c.out.Log, fmt.Sprintf("rerun %d map=%v cpus=%d -> exit=%d disk=%s stdout=%s", k, alt.MapTape[:4], alt.Cpus, res.ExitCode, fnv(after[c.target]), fnv(res.stdoutNorm())))
		if res.MapPerm > 0 {
			c.out.stat("map_orders_permuted", res.MapPerm)
		}
		diff := ""
		switch {
		case res.Crashed != c.res.Crashed || res.ExitCode != c.res.ExitCode:
			diff = fmt.Sprintf("exit status %d (crashed=%v) vs %d (crashed=%v)", c.res.ExitCode, c.res.Crashed, res.ExitCode, res.Crashed)
		case after[c.target] != primaryAfter[c.target]:
			diff = fmt.Sprintf("file bytes differ: %q vs %q", shortText(primaryAfter[c.target], 400), shortText(after[c.target], 400))
		case res.Stdout != c.res.Stdout:
			diff = fmt.Sprintf("output differs: %q vs %q", shortText(c.res.Stdout, 300), shortText(res.Stdout, 300))
		}
		if diff != "" {
			what := "map iteration order"
			if k == 2 {
				what = "map iteration order / CPU count / schedule"
			}
			c.report("C11", "nondeterministic", c.op.Kind, fmt.Sprintf("same file, command, config and clock, different %s: %s; file before=%q", what, diff, shortText(c.before[c.target], 400)))
			break
		}
	}
	hw.restore(primaryAfter)
}
