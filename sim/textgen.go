package main

// Generator of valid klog documents (structured, then rendered) and of the damage that
// storage and transfer faults do to them. Everything is drawn from the scenario's Rng.

import (
	"fmt"
	"strings"
	"time"
)

type GEntry struct {
	Value   string   `json:"value"`
	Summary []string `json:"summary,omitempty"` // first element goes on the value line ("" = none there)
	Open    bool     `json:"open,omitempty"`
	Sep     string   `json:"sep,omitempty"` // blank between value and summary ("" = one space); trailing when there is no text on the value line
}

type GRecord struct {
	Date       string   `json:"date"`
	Should     string   `json:"should,omitempty"`
	Summary    []string `json:"summary,omitempty"`
	Entries    []GEntry `json:"entries,omitempty"`
	Indent     string   `json:"indent"`
	EOL        string   `json:"eol"`
	BlankAfter []string `json:"blank_after,omitempty"` // texts of the blank lines that follow
	Y, M, D    int
	HeadTrail  string `json:"head_trail,omitempty"` // blanks after the headline
}

type GDoc struct {
	Leading      []string  `json:"leading,omitempty"` // blank lines before the first record
	Records      []GRecord `json:"records"`
	FinalNewline bool      `json:"final_newline"`
}

var indents = []string{"    ", "   ", "  ", "\t"}

var words = []string{"work", "meeting", "lunch", "Überstunden", "call with Zoë", "読む", "review", "café", "#gym", "#home-office",
	"#ticket=891", "#project=\"22/48.3\"", "#読む", "#a_b", "#Tag=x-1", "#q='it is'", "foo-bar", "8:00", "1h", "- x", "?", "(x!)", "émigré", "🙂", "a  b", "#x=\"unterminated", "-", "-3"}

func genSummaryText(r *Rng) string {
	n := r.Range(1, 4)
	parts := make([]string, n)
	for i := range parts {
		parts[i] = r.Pick(words)
	}
	s := strings.Join(parts, " ")
	return s
}

// genRecordSummaryLine: must not start with a blank character.
func genRecordSummaryLine(r *Rng) string {
	s := genSummaryText(r)
	if r.Chance(1, 6) {
		s += " " // trailing blank
	}
	return s
}

func fmtTime(mins int, twelve bool, pad bool) string {
	// mins relative to midnight of the record's date, in [-1440, 2880)
	prefix, suffix := "", ""
	if mins < 0 {
		prefix = "<"
		mins += 1440
	} else if mins >= 1440 {
		suffix = ">"
		mins -= 1440
	}
	h, m := mins/60, mins%60
	if twelve {
		ap := "am"
		hh := h
		if h >= 12 {
			ap = "pm"
		}
		if hh > 12 {
			hh -= 12
		}
		if hh == 0 {
			hh = 12
		}
		if pad {
			return fmt.Sprintf("%s%02d:%02d%s%s", prefix, hh, m, ap, suffix)
		}
		return fmt.Sprintf("%s%d:%02d%s%s", prefix, hh, m, ap, suffix)
	}
	if pad {
		return fmt.Sprintf("%s%02d:%02d%s", prefix, h, m, suffix)
	}
	return fmt.Sprintf("%s%d:%02d%s", prefix, h, m, suffix)
}

func fmtDuration(mins int, plus bool, r *Rng) string {
	sign := ""
	if mins < 0 {
		sign = "-"
		mins = -mins
	} else if plus {
		sign = "+"
	}
	h, m := mins/60, mins%60
	switch {
	case h == 0:
		return fmt.Sprintf("%s%dm", sign, m)
	case m == 0 && r.Chance(2, 3):
		return fmt.Sprintf("%s%dh", sign, h)
	case r.Chance(1, 8):
		return fmt.Sprintf("%s%dm", sign, h*60+m)
	default:
		return fmt.Sprintf("%s%dh%dm", sign, h, m)
	}
}

// recStyle is the per-record formatting.
type recStyle struct {
	indent  string
	eol     string
	slash   bool
	twelve  bool
	spaces  bool
	extraQ  int
	padTime bool
}

func genStyle(r *Rng, base *recStyle, uniform bool) recStyle {
	if base != nil && uniform {
		return *base
	}
	s := recStyle{indent: indents[r.Intn(4)], eol: "\n", spaces: true}
	if r.Chance(1, 4) {
		s.eol = "\r\n"
	}
	s.slash = r.Chance(1, 4)
	s.twelve = r.Chance(1, 4)
	s.spaces = !r.Chance(1, 4)
	if r.Chance(1, 4) {
		s.extraQ = r.Pick2([]int{1, 2, 3, 3, 7, 11})
	}
	s.padTime = r.Chance(1, 5)
	if base != nil {
		// vary only some dimensions against the base
		if r.Chance(1, 2) {
			s.eol = base.eol
		}
		if r.Chance(1, 2) {
			s.indent = base.indent
		}
	}
	return s
}

func fmtDate(y, m, d int, slash bool) string {
	if slash {
		return fmt.Sprintf("%04d/%02d/%02d", y, m, d)
	}
	return fmt.Sprintf("%04d-%02d-%02d", y, m, d)
}

type docOpts struct {
	today      time.Time // dates cluster around this day
	maxRecords int
	wantOpen   int // 0 random, 1 force an open range in today's/yesterday's record, -1 none
	sorted     int // 0 random, 1 sorted ascending, -1 unsorted allowed
	noDupDates bool
	ascii      bool
	longQ      bool // open ranges with long placeholders (closing them shrinks the file)
	noFuture   bool // no record after `today` (today is the last representable day)
	noEarlier  bool // no record before `today` (today is near the first representable day)
}

func genEntry(r *Rng, st recStyle, allowOpen bool) GEntry {
	e := GEntry{}
	k := r.Intn(10)
	switch {
	case k < 3:
		mins := r.Pick2([]int{0, 1, 15, 30, 45, 59, 60, 61, 90, 120, 480, 1500, r.Intn(600)})
		neg := r.Chance(1, 3)
		if neg {
			mins = -mins
		}
		e.Value = fmtDuration(mins, !neg && r.Chance(1, 6), r)
	case k < 9 || !allowOpen:
		start := r.Range(0, 1439)
		if r.Chance(1, 8) {
			start = r.Range(-1440, -1) // shifted to yesterday
		}
		end := start + r.Range(0, 600)
		if r.Chance(1, 10) {
			end = r.Range(1440, 2879)
		}
		if end < start {
			end = start
		}
		if end >= 2880 {
			end = 2879
		}
		dash := "-"
		if st.spaces {
			dash = " - "
		}
		e.Value = fmtTime(start, st.twelve, st.padTime) + dash + fmtTime(end, st.twelve, st.padTime)
	default:
		start := r.Range(0, 1439)
		if r.Chance(1, 10) {
			start = r.Range(-1440, -1)
		}
		dash := "-"
		if st.spaces {
			dash = " - "
		}
		e.Value = fmtTime(start, st.twelve, st.padTime) + dash + strings.Repeat("?", 1+st.extraQ)
		e.Open = true
	}
	// summary
	switch r.Intn(6) {
	case 0, 1:
		// none
	case 2, 3:
		e.Summary = []string{genSummaryText(r)}
	case 4:
		e.Summary = []string{genSummaryText(r), genSummaryText(r)}
		if r.Chance(1, 3) {
			e.Summary = append(e.Summary, "  "+genSummaryText(r)) // extra indentation inside the text
		}
	case 5:
		e.Summary = []string{"", genSummaryText(r)} // summary starts on the next line
	}
	// the parser takes one space OR one tab as the delimiter after the value; a trailing blank is legal too
	if r.Chance(1, 8) {
		e.Sep = r.Pick([]string{"\t", "\t", " "})
	}
	return e
}

func (r *Rng) Pick2(xs []int) int { return xs[r.Intn(len(xs))] }

func genBlank(r *Rng) string {
	switch r.Intn(8) {
	case 0:
		return "  "
	case 1:
		return "\t"
	case 2:
		return "    "
	}
	return ""
}

// genDoc generates a valid document.
func genDoc(r *Rng, o docOpts) GDoc {
	doc := GDoc{FinalNewline: !r.Chance(1, 4)}
	n := r.Range(0, o.maxRecords)
	if r.Chance(1, 12) {
		n = 0
	}
	if n == 0 && o.wantOpen == 1 {
		n = 1
	}
	for i := r.Intn(3) - 1; i > 0; i-- {
		doc.Leading = append(doc.Leading, genBlank(r))
	}
	uniform := r.Chance(3, 5)
	base := genStyle(r, nil, false)
	if o.longQ {
		base.extraQ = r.Pick2([]int{5, 6, 7, 9, 11})
		uniform = true
	}
	// dates
	offsets := make([]int, n)
	cur := -r.Range(0, 3*n+2)
	for i := range offsets {
		offsets[i] = cur
		step := r.Range(0, 3)
		if o.noDupDates && step == 0 {
			step = 1
		}
		cur += step
	}
	// make sure today / yesterday are hit most of the time
	if n > 0 && r.Chance(4, 5) {
		shift := -offsets[n-1-r.Intn(min(n, 2))]
		if r.Chance(1, 4) {
			shift--
		}
		for i := range offsets {
			offsets[i] += shift
		}
	}
	for i := range offsets {
		if o.noFuture && offsets[i] > 0 {
			offsets[i] = -offsets[i]
		}
		if o.noEarlier && offsets[i] < 0 {
			offsets[i] = -offsets[i]
		}
	}
	if o.noFuture && n > 0 && r.Chance(2, 3) {
		offsets[n-1] = 0 // the last record sits on the edge itself
	}
	if o.noEarlier && n > 0 && r.Chance(2, 3) {
		offsets[0] = 0
	}
	sorted := true
	if o.sorted == 0 && r.Chance(1, 5) || o.sorted == -1 {
		sorted = false
		for i := len(offsets) - 1; i > 0; i-- {
			j := r.Intn(i + 1)
			offsets[i], offsets[j] = offsets[j], offsets[i]
		}
	}
	_ = sorted
	openPlaced := false
	for i := 0; i < n; i++ {
		st := genStyle(r, &base, uniform)
		day := o.today.AddDate(0, 0, offsets[i])
		rec := GRecord{Y: day.Year(), M: int(day.Month()), D: day.Day(), Indent: st.indent, EOL: st.eol}
		rec.Date = fmtDate(rec.Y, rec.M, rec.D, st.slash)
		if r.Chance(1, 3) {
			mins := r.Pick2([]int{480, 450, 0, 30, 240, -60})
			rec.Should = "(" + fmtDuration(mins, false, r) + "!)"
		}
		if r.Chance(1, 10) {
			// blanks the parser tolerates in the headline: a tab or several blanks before the should-total,
			// a trailing blank
			if rec.Should != "" {
				rec.Should = r.Pick([]string{"\t", " ", " \t"}) + rec.Should
			}
			if r.Chance(1, 2) {
				rec.HeadTrail = r.Pick([]string{" ", "\t", "  "})
			}
		}
		for k := r.Intn(4) - 1; k > 0; k-- {
			rec.Summary = append(rec.Summary, genRecordSummaryLine(r))
		}
		ne := r.Range(0, 4)
		hasOpen := false
		for k := 0; k < ne; k++ {
			allowOpen := !hasOpen && o.wantOpen != -1
			e := genEntry(r, st, allowOpen)
			if e.Open {
				hasOpen = true
			}
			rec.Entries = append(rec.Entries, e)
		}
		isNear := offsets[i] == 0 || offsets[i] == -1
		if o.wantOpen == 1 && isNear && !hasOpen && !openPlaced {
			start := r.Range(0, 1439)
			dash := "-"
			if st.spaces {
				dash = " - "
			}
			e := GEntry{Value: fmtTime(start, st.twelve, st.padTime) + dash + strings.Repeat("?", 1+st.extraQ), Open: true}
			if r.Chance(2, 3) {
				e.Summary = []string{genSummaryText(r)}
			}
			pos := r.Intn(len(rec.Entries) + 1)
			rec.Entries = append(rec.Entries[:pos], append([]GEntry{e}, rec.Entries[pos:]...)...)
			hasOpen = true
		}
		if hasOpen && isNear {
			openPlaced = true
		}
		nb := 1
		if r.Chance(1, 4) {
			nb = r.Range(2, 3)
		}
		if i == n-1 {
			nb = r.Intn(3)
			if r.Chance(1, 2) {
				nb = 0
			}
		}
		for k := 0; k < nb; k++ {
			rec.BlankAfter = append(rec.BlankAfter, genBlank(r))
		}
		doc.Records = append(doc.Records, rec)
	}
	return doc
}

// render turns the document into bytes.
func (d *GDoc) render() string {
	var lines []string // each with its line ending
	eol := "\n"
	if len(d.Records) > 0 {
		eol = d.Records[0].EOL
	}
	for _, b := range d.Leading {
		lines = append(lines, b+eol)
	}
	for _, rec := range d.Records {
		eol = rec.EOL
		head := rec.Date
		if rec.Should != "" {
			head += " " + rec.Should
		}
		head += rec.HeadTrail
		lines = append(lines, head+eol)
		for _, s := range rec.Summary {
			lines = append(lines, s+eol)
		}
		for _, e := range rec.Entries {
			first := e.Value
			rest := e.Summary
			sep := e.Sep
			if len(rest) > 0 && rest[0] != "" {
				if sep == "" {
					sep = " "
				}
				first += sep + rest[0]
			} else {
				first += sep // trailing blank after the value
			}
			if len(rest) > 0 {
				rest = rest[1:]
			}
			lines = append(lines, rec.Indent+first+eol)
			for _, s := range rest {
				lines = append(lines, rec.Indent+rec.Indent+s+eol)
			}
		}
		for _, b := range rec.BlankAfter {
			lines = append(lines, b+eol)
		}
	}
	out := strings.Join(lines, "")
	if !d.FinalNewline && len(lines) > 0 {
		out = strings.TrimSuffix(out, "\n")
		out = strings.TrimSuffix(out, "\r")
	}
	return out
}

// ---------------------------------------------------------------------------------------
// damage: what storage and transfer faults make out of a file

var damageKinds = []string{"bitflip", "drop", "insert", "truncate", "zero", "stutter", "lonecr", "crlf_partial", "latin1", "randblock", "dup_line", "splice", "bignum", "longline", "ctrl_at_boundary", "malformed_line", "blank_runs"}

func damage(r *Rng, s string, kind string) string {
	b := []byte(s)
	if len(b) == 0 {
		switch kind {
		case "insert", "randblock":
		default:
			return s
		}
	}
	pos := func() int { return r.Intn(len(b) + 1) }
	in := func() int { return r.Intn(len(b)) }
	switch kind {
	case "bitflip":
		for k := r.Range(1, 3); k > 0; k-- {
			i := in()
			b[i] ^= 1 << uint(r.Intn(8))
		}
	case "drop":
		i := in()
		n := r.Range(1, min(4, len(b)-i))
		b = append(b[:i], b[i+n:]...)
	case "insert":
		i := pos()
		ins := []byte{byte(r.Intn(256))}
		if r.Chance(1, 2) {
			ins = []byte(r.Pick([]string{"\n", "\r", "\t", " ", "?", "-", "#", "<", ">", "!", "(", "\x00", "\xff", "\xc3", "\xe8\xaa", "99999999999999999999h", "1h99999999999999999999m", "153722867280912931h", "9223372036854775807m"}))
		}
		b = append(b[:i], append(ins, b[i:]...)...)
	case "truncate":
		b = b[:pos()]
	case "zero":
		i := in()
		n := r.Range(1, min(16, len(b)-i))
		for k := 0; k < n; k++ {
			b[i+k] = 0
		}
	case "stutter":
		i := in()
		n := r.Range(1, min(6, len(b)-i))
		rep := r.Range(2, 8)
		span := append([]byte(nil), b[i:i+n]...)
		var mid []byte
		for k := 0; k < rep; k++ {
			mid = append(mid, span...)
		}
		b = append(b[:i], append(mid, b[i+n:]...)...)
	case "lonecr":
		i := pos()
		b = append(b[:i], append([]byte{'\r'}, b[i:]...)...)
	case "crlf_partial":
		// convert some LF to CRLF or the other way round, from a random offset on
		i := pos()
		head, tail := string(b[:i]), string(b[i:])
		if strings.Contains(tail, "\r\n") {
			tail = strings.Replace(tail, "\r\n", "\n", r.Range(1, 3))
		} else {
			tail = strings.Replace(tail, "\n", "\r\n", r.Range(1, 3))
		}
		b = []byte(head + tail)
	case "latin1":
		// re-encode a span of UTF-8 as Latin-1 (drops continuation bytes → invalid UTF-8)
		var out []byte
		i := pos()
		for k, c := range []rune(string(b)) {
			if k >= i && c > 127 && c < 256 {
				out = append(out, byte(c))
			} else if k >= i && c >= 256 {
				out = append(out, byte(c&0xff))
			} else {
				out = append(out, []byte(string(c))...)
			}
		}
		b = out
	case "randblock":
		i := pos()
		n := r.Range(1, 12)
		blk := make([]byte, n)
		for k := range blk {
			blk[k] = byte(r.Intn(256))
		}
		b = append(b[:i], append(blk, b[i:]...)...)
	case "dup_line":
		ls := strings.SplitAfter(string(b), "\n")
		i := r.Intn(len(ls))
		ls = append(ls[:i+1], ls[i:]...)
		b = []byte(strings.Join(ls, ""))
	case "bignum":
		// digit runs replaced by absurdly large numbers (stuck key, corrupted length field)
		s2 := string(b)
		var runs [][2]int
		for i := 0; i < len(s2); {
			if s2[i] >= '0' && s2[i] <= '9' {
				j := i
				for j < len(s2) && s2[j] >= '0' && s2[j] <= '9' {
					j++
				}
				if j < len(s2) && (s2[j] == 'h' || s2[j] == 'm') {
					runs = append(runs, [2]int{i, j})
				}
				i = j
			} else {
				i++
			}
		}
		if len(runs) > 0 {
			k := r.Range(1, min(3, len(runs)))
			for ; k > 0; k-- {
				run := runs[r.Intn(len(runs))]
				big := r.Pick([]string{"9223372036854775807", "153722867280912930", "4611686018427387904", "99999999999", "76861433640456465", "9223372036854775000"})
				if run[1]-run[0] == len(big) {
					continue
				}
				s2 = s2[:run[0]] + big + s2[run[1]:]
				break
			}
			if r.Chance(1, 2) {
				// the same once more, elsewhere
				for i := len(s2) - 1; i > 0; i-- {
					if (s2[i] == 'm' || s2[i] == 'h') && s2[i-1] >= '0' && s2[i-1] <= '9' && !strings.HasSuffix(s2[:i], "7") {
						j := i
						for j > 0 && s2[j-1] >= '0' && s2[j-1] <= '9' {
							j--
						}
						s2 = s2[:j] + "9223372036854775807" + s2[i:]
						break
					}
				}
			}
		}
		b = []byte(s2)
	case "ctrl_at_boundary":
		// a control / escape / zero-width sequence right at a token boundary: before a quote,
		// a blank, a line end, or at the very end of the file
		var cands []int
		for i := 0; i <= len(b); i++ {
			if i == len(b) || b[i] == '"' || b[i] == '\'' || b[i] == ' ' || b[i] == '\n' || b[i] == '\r' || b[i] == '\t' || b[i] == '=' {
				cands = append(cands, i)
			}
		}
		i := cands[r.Intn(len(cands))]
		ins := r.Pick([]string{"\x1b[31", "\x1b[1;", "\x1b[", "\x1b[0m", "\x1b", "\x00", "\x7f", "\u200b", "\u0301", "\ufeff", "\x1b[38;5;1", "\u202e"})
		b = append(b[:i], append([]byte(ins), b[i:]...)...)
	case "malformed_line":
		// a crafted rule-violating (or borderline) line lands in the file
		ls := strings.SplitAfter(string(b), "\n")
		ml := r.Pick(trickyLines)
		eol := "\n"
		if strings.Contains(string(b), "\r\n") {
			eol = "\r\n"
		}
		i := r.Intn(len(ls) + 1)
		switch r.Intn(4) {
		case 0:
			if i < len(ls) {
				ls[i] = ml + eol // replaces a line
			} else {
				ls = append(ls, ml) // at the very end, no newline
			}
		case 1:
			ls = append(ls, ml) // last line without newline
		default:
			ls = append(ls[:i], append([]string{ml + eol}, ls[i:]...)...)
		}
		b = []byte(strings.Join(ls, ""))
	case "blank_runs":
		// runs of blank and whitespace-only lines at random places (also at both ends)
		ls := strings.SplitAfter(string(b), "\n")
		for k := r.Range(1, 4); k > 0; k-- {
			i := r.Intn(len(ls) + 1)
			if r.Chance(1, 4) {
				i = r.Pick2([]int{0, len(ls)})
			}
			var run []string
			for n := r.Range(1, 9); n > 0; n-- {
				run = append(run, r.Pick([]string{"", "", "", " ", "  ", "\t", "    ", " \t "})+r.Pick([]string{"\n", "\n", "\n", "\r\n"}))
			}
			ls = append(ls[:i], append(run, ls[i:]...)...)
		}
		b = []byte(strings.Join(ls, ""))
	case "longline":
		// a very long line: a run of junk (or of a repeated fragment) lands inside a line
		i := pos()
		n := r.Pick2([]int{70, 76, 80, 100, 200, 1000, 5000})
		unit := r.Pick([]string{"x", "x", "ab ", "é", "#tag ", "-", "?", "1h", " ", "\t", "8:00-"})
		b = append(b[:i], append([]byte(strings.Repeat(unit, n/len(unit)+1)), b[i:]...)...)
	case "splice":
		// a block of the file lands at another offset (lost/misdirected write)
		i := in()
		n := r.Range(1, min(40, len(b)-i))
		blk := append([]byte(nil), b[i:i+n]...)
		j := pos()
		b = append(b[:j], append(blk, b[j:]...)...)
	}
	return string(b)
}

var trickyLines = []string{"    -", "\t-", "2024-01-01 (", "2024-01-01 ( ", "2024-01-01 (   )", "2024-01-01 (8h", "2024-01-01 (!)", "2024-01-01 ()",
	"    8:000 - 9:00", "    8:60", "    8:0", "2024-01-01\t", "2024-01-01\t(8h!)", "     1h", "\t  1h", "  \t1h", "\u00a0\u00a01h", "\u00a0", "\r", "  \r", "    1h\r x",
	"    8:00 -", "    8:00 - ", "    - 9:00", "    8:00 - ? ?", "    8:00-?-", "    <", "    >", "    8:00>>", "    <<8:00", "    <8:00>",
	"    12:00am - 12:00pm", "    24:00 - 24:00", "    24:00>", "    é", "    8:00 - 9:00é", "(8h!)", "2024-01-01 (8h!) x", "2024-01-01 (8h!)(9h!)",
	"2024-13-01", "2024-02-30", "0000-00-00", "2024-1-1", "20240101", "    1h\x00", "#", "    #", "    1h #", "    1h #=", "    1h #a=\"", "    -?", "    ?", "    1h2", "    hm", "    +", "    --1h",
	"        continuation without entry", "summary after entries", " leading blank headline", "    8:00am - 8:00", "    0:00 - 24:00", "    <0:00 - 24:00>"}
