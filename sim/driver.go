package main

import (
	"bufio"
	"encoding/json"
	"fmt"
	"io"
	"os"
	"os/exec"
	"path/filepath"
	"runtime"
	"sort"
	"strings"
	"sync"
	"time"
)

// budgets: scenario counts per engine and tier (fixed, so that a seed always explores the
// same set); VERIF_BUDGET_S only truncates.
var budgets = map[string]map[string]int{
	"C07": {"quick": 60000, "thorough": 1500000},
	"C06": {"quick": 20000, "thorough": 400000},
	"C03": {"quick": 3000, "thorough": 60000},
	"C04": {"quick": 1000, "thorough": 40000},
	"C05": {"quick": 2500, "thorough": 60000},
	"C11": {"quick": 1500, "thorough": 40000},
	"C17": {"quick": 42000, "thorough": 0}, // thorough: the whole cell grid, set in init
	"C19": {"quick": 1200, "thorough": 30000},
}

func init() { budgets["C17"]["thorough"] = c17Cells() }

// ---------------------------------------------------------------------------------------
// worker pool with watchdog

type worker struct {
	cmd    *exec.Cmd
	in     io.WriteCloser
	out    *bufio.Reader
	stderr *tailBuffer
	served int
}

type tailBuffer struct {
	mu  sync.Mutex
	buf []byte
}

func (t *tailBuffer) Write(p []byte) (int, error) {
	t.mu.Lock()
	t.buf = append(t.buf, p...)
	if len(t.buf) > 16<<10 {
		t.buf = t.buf[len(t.buf)-(16<<10):]
	}
	t.mu.Unlock()
	return len(p), nil
}

func (t *tailBuffer) String() string {
	t.mu.Lock()
	defer t.mu.Unlock()
	return string(t.buf)
}

func startWorker() (*worker, error) {
	exe, err := os.Executable()
	if err != nil {
		return nil, err
	}
	// address-space limit so that a runaway allocation in klog cannot take the machine down
	cmd := exec.Command("/bin/sh", "-c", "ulimit -v 16000000 2>/dev/null; exec \"$0\" worker", exe)
	cmd.Env = append(os.Environ(), "GOMAXPROCS="+gomaxprocsForWorkers())
	in, err := cmd.StdinPipe()
	if err != nil {
		return nil, err
	}
	outp, err := cmd.StdoutPipe()
	if err != nil {
		return nil, err
	}
	tb := &tailBuffer{}
	cmd.Stderr = tb
	if err := cmd.Start(); err != nil {
		return nil, err
	}
	return &worker{cmd: cmd, in: in, out: bufio.NewReaderSize(outp, 1<<20), stderr: tb}, nil
}

// watchdogTimeout: real time after which a scenario counts as hung (it is then re-run alone
// with twice the time; only a reproduced hang is reported).
func watchdogTimeout() time.Duration {
	return time.Duration(envInt("VERIF_WATCHDOG_S", 45)) * time.Second
}

func gomaxprocsForWorkers() string {
	if v := os.Getenv("VERIF_WORKER_GOMAXPROCS"); v != "" {
		return v
	}
	return "2"
}

func (w *worker) kill() {
	if w.cmd.Process != nil {
		_ = w.cmd.Process.Kill()
	}
	_ = w.cmd.Wait()
}

type callResult struct {
	resp    *response
	timeout bool
	died    bool
	stderr  string
}

// call sends one request and waits for the answer under a real-time watchdog.
func (w *worker) call(req *request, timeout time.Duration) callResult {
	b, _ := json.Marshal(req)
	type rd struct {
		line []byte
		err  error
	}
	ch := make(chan rd, 1)
	go func() {
		if _, err := w.in.Write(append(b, '\n')); err != nil {
			ch <- rd{nil, err}
			return
		}
		line, err := w.out.ReadBytes('\n')
		ch <- rd{line, err}
	}()
	select {
	case r := <-ch:
		if r.err != nil {
			w.kill()
			return callResult{died: true, stderr: w.stderr.String()}
		}
		var resp response
		if err := json.Unmarshal(r.line, &resp); err != nil {
			w.kill()
			return callResult{died: true, stderr: "bad response: " + err.Error() + "\n" + w.stderr.String()}
		}
		w.served++
		return callResult{resp: &resp}
	case <-time.After(timeout):
		w.kill()
		return callResult{timeout: true, stderr: w.stderr.String()}
	}
}

type pool struct {
	n         int
	reqTO     time.Duration
	recycleN  int
	stopEarly func() bool
}

// runAll executes the requests on n workers; results are delivered in request order.
// A request whose worker timed out or died is re-run alone in a fresh worker; only a
// reproduced failure is reported (as hang / fatal), otherwise it is inconclusive.
func (p *pool) runAll(reqs []*request, onResult func(i int, o *Outcome, log []string), deadline time.Time) (done int, truncated bool, inconclusive int) {
	type item struct {
		i   int
		req *request
	}
	jobs := make(chan item)
	var mu sync.Mutex
	hangSeen, fatalSeen := false, map[string]bool{}
	skipped := 0
	var wg sync.WaitGroup
	for k := 0; k < p.n; k++ {
		wg.Add(1)
		go func() {
			defer wg.Done()
			var w *worker
			defer func() {
				if w != nil {
					w.in.Close()
					w.kill()
				}
			}()
			for it := range jobs {
				if w == nil || w.served >= p.recycleN {
					if w != nil {
						w.in.Close()
						w.kill()
					}
					nw, err := startWorker()
					if err != nil {
						mu.Lock()
						onResult(it.i, &Outcome{Index: it.req.Index, Error: "cannot start worker: " + err.Error()}, nil)
						done++
						mu.Unlock()
						continue
					}
					w = nw
				}
				mu.Lock()
				to := p.reqTO
				if hangSeen {
					// the hang is established; do not spend the full watchdog time on each further one
					to = 6 * time.Second
				}
				mu.Unlock()
				cr := w.call(it.req, to)
				mu.Lock()
				skipRerun := (cr.timeout && hangSeen) || (cr.died && fatalSeen[fatalSite(cr.stderr)])
				mu.Unlock()
				if skipRerun {
					// a hang / fatal error has already been reproduced in this run: further
					// occurrences are counted, not re-run (each costs minutes of real time)
					w = nil
					mu.Lock()
					onResult(it.i, &Outcome{Index: it.req.Index, Stats: map[string]int{"hang_or_fatal_not_rerun": 1}}, nil)
					done++
					skipped++
					mu.Unlock()
					continue
				}
				if cr.timeout || cr.died {
					w = nil
					// re-run alone
					nw, err := startWorker()
					var second callResult
					if err == nil {
						second = nw.call(it.req, 2*p.reqTO)
						if !second.timeout && !second.died {
							nw.in.Close()
							nw.kill()
						}
					}
					switch {
					case err != nil:
						cr.resp = &response{Outcome: &Outcome{Index: it.req.Index, Error: "cannot start worker: " + err.Error()}}
					case second.timeout && cr.timeout:
						mu.Lock()
						hangSeen = true
						mu.Unlock()
						cr.resp = &response{Outcome: &Outcome{Index: it.req.Index, Verdicts: []Verdict{
							mkVerdict(it.req.propertyOf(), "hang", "watchdog", fmt.Sprintf("scenario did not finish within %v of real time, twice", 2*p.reqTO), 0)}}}
					case second.died && cr.died:
						mu.Lock()
						fatalSeen[fatalSite(second.stderr)] = true
						mu.Unlock()
						cr.resp = &response{Outcome: &Outcome{Index: it.req.Index, Verdicts: []Verdict{
							mkVerdict(it.req.propertyOf(), "fatal", fatalSite(second.stderr), "the process died with a fatal runtime error, twice: "+shortText(lastLines(second.stderr, 12), 1500), 0)}}}
					case !second.timeout && !second.died && err == nil:
						cr.resp = second.resp
						mu.Lock()
						inconclusive++
						mu.Unlock()
					default:
						mu.Lock()
						inconclusive++
						mu.Unlock()
						cr.resp = &response{Outcome: &Outcome{Index: it.req.Index, Stats: map[string]int{"watchdog_inconclusive": 1}}}
					}
				}
				mu.Lock()
				onResult(it.i, cr.resp.Outcome, cr.resp.Log)
				done++
				mu.Unlock()
			}
		}()
	}
	for i, r := range reqs {
		if !deadline.IsZero() && time.Now().After(deadline) {
			truncated = true
			break
		}
		mu.Lock()
		tooMany := skipped > 40
		if p.stopEarly != nil && p.stopEarly() {
			tooMany = true // (VERIF_STOP_AT_FIRST: a violation was found, the rest of the budget is not spent)
		}
		mu.Unlock()
		if tooMany {
			// the tree hangs or dies on many scenarios: the violation is established, stop here
			truncated = true
			break
		}
		jobs <- item{i, r}
	}
	close(jobs)
	wg.Wait()
	return done, truncated, inconclusive
}

func (r *request) propertyOf() string {
	if r.Scenario != nil {
		return r.Scenario.Property
	}
	return r.Property
}

func lastLines(s string, n int) string {
	ls := strings.Split(strings.TrimRight(s, "\n"), "\n")
	if len(ls) > n {
		ls = ls[len(ls)-n:]
	}
	return strings.Join(ls, "\n")
}

func fatalSite(stderr string) string {
	for _, l := range strings.Split(stderr, "\n") {
		if strings.HasPrefix(l, "fatal error:") || strings.HasPrefix(l, "runtime:") {
			s := strings.ReplaceAll(strings.TrimSpace(strings.TrimPrefix(l, "fatal error:")), " ", "_")
			// numbers (sizes, addresses) are not part of the identity of a fatal error
			var b strings.Builder
			for _, c := range s {
				if c >= '0' && c <= '9' {
					continue
				}
				b.WriteRune(c)
			}
			if i := strings.Index(b.String(), "cannot_allocate"); i > 0 {
				return b.String()[:i] + "cannot_allocate"
			}
			return b.String()
		}
	}
	return "unknown"
}

// ---------------------------------------------------------------------------------------
// known findings

type knownFinding struct {
	Property    string `json:"property"`
	Fingerprint string `json:"fingerprint"`
	// optional: the finding is ALSO recognised by rule + a text that its detail must contain (the panic
	// value), whatever function the panic surfaces in — a refactoring that re-raises a worker's panic on
	// another goroutine moves the site but not the defect
	Rule           string `json:"rule,omitempty"`
	DetailContains string `json:"detail_contains,omitempty"`
	// optional: narrows an exact fingerprint further - the detail of the violation must contain this text too
	// (e.g. the harness's marker that the input holds an absurdly large number), so that another defect that
	// surfaces at the same site is still reported
	Requires string `json:"requires,omitempty"`
	What     string `json:"what"`
	Status   string `json:"status"` // "open" (recorded, not repaired) or "fixed"
	Commit   string `json:"commit,omitempty"`
}

// matches: is this violation the recorded finding?
func (k *knownFinding) matches(prop string, v *Verdict) bool {
	if k.Status != "open" || k.Property != prop {
		return false
	}
	if k.Fingerprint == v.Fingerprint {
		return k.Requires == "" || strings.Contains(v.Detail, k.Requires)
	}
	return k.DetailContains != "" && k.Rule == v.Rule && strings.Contains(v.Detail, k.DetailContains)
}

func loadKnown(verif string) []knownFinding {
	b, err := os.ReadFile(filepath.Join(verif, "known_findings.json"))
	if err != nil {
		return nil
	}
	var f struct {
		Findings []knownFinding `json:"findings"`
	}
	_ = json.Unmarshal(b, &f)
	return f.Findings
}

// ---------------------------------------------------------------------------------------
// driver

type evidence struct {
	PropertyID  string         `json:"property_id"`
	Tier        string         `json:"tier"`
	Seed        int64          `json:"seed"`
	Level       string         `json:"level"`
	Coverage    map[string]any `json:"coverage"`
	Assumptions []string       `json:"assumptions"`
	WallS       float64        `json:"wall_s"`
	Violations  int            `json:"violations"`
}

func runDriver(prop, tier string, seed int64, from, count, nworkers int, verif, instrReport, evName, merge string) int {
	start := time.Now()
	engName := propertyEngine[prop]
	eng := engines[engName]
	if eng == nil {
		fmt.Fprintln(os.Stderr, "sim: no engine for property", prop)
		return 2
	}
	if count == 0 {
		count = budgets[prop][tier]
		if v := envInt("VERIF_COUNT", 0); v > 0 {
			count = int(v)
		}
	}
	if nworkers == 0 {
		nworkers = runtime.NumCPU()
	}
	var deadline time.Time
	if s := envInt("VERIF_BUDGET_S", 0); s > 0 {
		deadline = start.Add(time.Duration(s) * time.Second)
	}
	fmt.Printf("sim: property=%s engine=%s tier=%s VERIF_SEED=%d scenarios=%d workers=%d\n", prop, engName, tier, seed, count, nworkers)

	reqs := make([]*request, count)
	for i := range reqs {
		reqs[i] = &request{Gen: true, Property: prop, Seed: seed, Index: from + i, Tier: tier}
	}
	stats := map[string]int{}
	distinct := map[string]bool{}
	measures := map[string]map[string]bool{}
	var samples []any
	var simMillis int64
	procs := 0
	type found struct {
		v     Verdict
		index int
	}
	firstByFP := map[string]found{}
	known := loadKnown(verif)
	knownHits := map[string]int{}
	foreignByFP := map[string]int{}
	foreignDetail := map[string]string{}
	var harnessErrs []string
	p := &pool{n: nworkers, reqTO: watchdogTimeout(), recycleN: 2000}
	if os.Getenv("VERIF_STOP_AT_FIRST") != "" {
		// for re-evaluating many seeded changes: stop dispatching once a violation that is not a recorded finding
		// has been seen (called with the result lock held)
		p.stopEarly = func() bool { return len(firstByFP) > 0 }
	}
	done, truncated, inconclusive := p.runAll(reqs, func(i int, o *Outcome, _ []string) {
		if o.Error != "" {
			harnessErrs = append(harnessErrs, fmt.Sprintf("index %d: %s", o.Index, o.Error))
			return
		}
		mergeStats(stats, o.Stats)
		for _, d := range o.Distinct {
			distinct[d] = true
		}
		for name, keys := range o.Measures {
			if measures[name] == nil {
				measures[name] = map[string]bool{}
			}
			for _, k := range keys {
				measures[name][k] = true
			}
		}
		if o.Sample != nil && len(samples) < 12 {
			samples = append(samples, o.Sample)
		}
		simMillis += o.SimMillis
		procs += o.Procs
		for _, v := range o.Verdicts {
			// every single violation is compared with the recorded findings (not one per fingerprint: a new
			// defect may surface at the site of a recorded one)
			isKnown := false
			for ki := range known {
				if known[ki].matches(prop, &v) {
					knownHits[known[ki].Fingerprint]++
					isKnown = true
				}
			}
			if isKnown {
				stats["known_finding_hits"]++
				continue
			}
			if f, ok := firstByFP[v.Fingerprint]; !ok || reqs[i].Index < f.index {
				firstByFP[v.Fingerprint] = found{v, reqs[i].Index}
			}
		}
		for _, v := range o.Foreign {
			foreignByFP[v.Fingerprint]++
			if _, ok := foreignDetail[v.Fingerprint]; !ok {
				foreignDetail[v.Fingerprint] = fmt.Sprintf("index %d: %s", reqs[i].Index, v.Detail)
			}
		}
	}, deadline)

	if len(harnessErrs) > 0 {
		for _, e := range harnessErrs[:min(5, len(harnessErrs))] {
			fmt.Fprintln(os.Stderr, "sim: harness error:", e)
		}
		fmt.Fprintln(os.Stderr, "sim: harness trouble, no verdict")
		return 2
	}

	// triage violations
	fps := make([]string, 0, len(firstByFP))
	for fp := range firstByFP {
		fps = append(fps, fp)
	}
	sort.Strings(fps)
	violations := 0
	var violationSummaries []any
	for _, fp := range fps {
		f := firstByFP[fp]
		violations++
		if violations > 4 {
			continue // enough replay files; the count is still reported
		}
		sc := eng.generate(prop, seed, f.index, tier)
		minSc, minOut, execs := minimise(eng, sc, fp, p)
		var mv Verdict
		for _, v := range minOut.Verdicts {
			if v.Fingerprint == fp {
				mv = v
			}
		}
		minSc.Expect = &Expect{Verdict: "violation", Rule: mv.Rule, Fingerprint: fp, Detail: mv.Detail, LogSHA256: minOut.LogSHA256}
		_ = os.MkdirAll(filepath.Join(verif, "replays"), 0o755)
		path := filepath.Join(verif, "replays", fmt.Sprintf("%s-%s.json", prop, fnv(fp)))
		b, _ := json.MarshalIndent(minSc, "", " ")
		_ = os.WriteFile(path, b, 0o644)
		fmt.Printf("violation: %s\n  found at seed=%d index=%d, minimised with %d executions\n  %s\n", fp, seed, f.index, execs, shortText(mv.Detail, 600))
		fmt.Printf("VIOLATION property=%s replay=%s\n", prop, path)
		violationSummaries = append(violationSummaries, map[string]any{"fingerprint": fp, "seed": seed, "index": f.index, "replay": path, "detail": shortText(mv.Detail, 400)})
	}
	// every recorded (open) finding of this property is listed, whether or not this run reached it
	for _, k := range known {
		if k.Status == "open" && k.Property == prop {
			reached := "reached in this run"
			if knownHits[k.Fingerprint] == 0 {
				reached = "not reached in this run"
			}
			fmt.Printf("KNOWN-FINDING: property=%s %s (%s; %s)\n", prop, k.What, k.Fingerprint, reached)
		}
	}
	for _, fp := range sortedKeys(foreignByFP) {
		fmt.Fprintf(os.Stderr, "note: foreign violation seen on the way (not reported under %s): %s ×%d\n", prop, fp, foreignByFP[fp])
		if os.Getenv("VERIF_SHOW_FOREIGN") != "" {
			fmt.Fprintf(os.Stderr, "      %s\n", shortText(foreignDetail[fp], 1500))
		}
	}

	wall := time.Since(start).Seconds()
	if len(samples) == 0 {
		samples = append(samples, map[string]any{"note": "no sample recorded", "property": prop})
	}
	cov := map[string]any{
		"evaluations":            done,
		"distinct_nontrivial":    len(distinct),
		"rule":                   coverageRule[prop],
		"samples":                samples,
		"simulated_processes":    procs,
		"simulated_seconds":      float64(simMillis) / 1000,
		"runs_per_hour":          int(float64(done) / wall * 3600),
		"seeds":                  fmt.Sprintf("VERIF_SEED=%d, scenario indices 0..%d (one derived PRNG stream per index)", seed, done-1),
		"counters":               stats,
		"distinct_by_measure":    measureSizes(measures),
		"truncated_by_budget":    truncated,
		"watchdog_inconclusive":  inconclusive,
		"foreign_violations":     foreignByFP,
		"violation_fingerprints": violationSummaries,
		"real_vs_stub":           realVsStub,
		"schedule_controlled":    stats["uncontrolled_seams"] == 0,
	}
	if instrReport != "" {
		if b, err := os.ReadFile(instrReport); err == nil {
			var rep any
			if json.Unmarshal(b, &rep) == nil {
				cov["instrumentation"] = rep
			}
		}
	}
	if merge != "" {
		if b, err := os.ReadFile(merge); err == nil {
			var side map[string]any
			if json.Unmarshal(b, &side) == nil {
				cov["side_run"] = side
			}
		}
	}
	if evName == "" {
		evName = prop
	}
	ev := evidence{PropertyID: prop, Tier: tier, Seed: seed, Level: "exploration", Coverage: cov,
		Assumptions: assumptions[prop], WallS: wall, Violations: violations}
	_ = os.MkdirAll(filepath.Join(verif, "evidence"), 0o755)
	eb, _ := json.MarshalIndent(ev, "", " ")
	if err := os.WriteFile(filepath.Join(verif, "evidence", evName+".json"), eb, 0o644); err != nil {
		fmt.Fprintln(os.Stderr, "sim: cannot write evidence:", err)
		return 2
	}
	fmt.Printf("sim: %d scenarios, %d distinct non-trivial, %d simulated processes, %.1f simulated s, %.1fs wall, violations=%d known=%d inconclusive=%d\n",
		done, len(distinct), procs, float64(simMillis)/1000, wall, violations, stats["known_finding_hits"], inconclusive)
	if violations > 0 {
		return 1
	}
	if len(distinct) < 2 {
		fmt.Fprintln(os.Stderr, "sim: fewer than 2 distinct non-trivial cases — the search did not reach the property")
		return 2
	}
	return 0
}

func measureSizes(m map[string]map[string]bool) map[string]int {
	out := map[string]int{}
	for k, v := range m {
		out[k] = len(v)
	}
	return out
}

var realVsStub = map[string]any{
	"real":           "every package under /repo/klog (kong decoding, klog.Run, app.context, reconciler, serial+parallel parser, serialisers), real file system in a scratch directory",
	"stub":           "main() of klog.go (re-stated in the harness), OS clock, signals, process exit, goroutine scheduling (cooperative, one at a time), map iteration order, stdout",
	"never_executed": "editor / file explorer launching, version check network call, shell completion",
}

var coverageRule = map[string]string{}
var assumptions = map[string][]string{}

// minimise shrinks a failing scenario while the same fingerprint persists.
func minimise(eng engine, sc *Scenario, fp string, p *pool) (*Scenario, *Outcome, int) {
	execs := 0
	w, err := startWorker()
	run := func(c *Scenario) *Outcome {
		execs++
		if err != nil {
			return executeScenario(c)
		}
		to := 120 * time.Second
		if strings.Contains(fp, "/hang/") {
			to = 8 * time.Second // a candidate that still hangs is recognised quickly
		}
		cr := w.call(&request{Scenario: c}, to)
		if cr.timeout || cr.died {
			w, err = startWorker()
			// a candidate that kills the worker is not used for shrinking, except when
			// that is the violation being minimised
			if strings.Contains(fp, "/hang/") || strings.Contains(fp, "/fatal/") {
				return &Outcome{Verdicts: []Verdict{{Fingerprint: fp}}}
			}
			return &Outcome{}
		}
		return cr.resp.Outcome
	}
	defer func() {
		if w != nil && err == nil {
			w.in.Close()
			w.kill()
		}
	}()
	has := func(o *Outcome) bool {
		for _, v := range o.Verdicts {
			if v.Fingerprint == fp {
				return true
			}
		}
		return false
	}
	best := sc
	bestOut := run(sc)
	if !has(bestOut) {
		return sc, bestOut, execs
	}
	deadline := time.Now().Add(40 * time.Second)
	maxExecs := 2500
	if strings.Contains(fp, "/hang/") || strings.Contains(fp, "/fatal/") {
		maxExecs = 60 // every failing candidate costs a worker process
	}
	for improved := true; improved && execs < maxExecs && time.Now().Before(deadline); {
		improved = false
		for _, c := range eng.shrink(best) {
			if execs >= maxExecs || time.Now().After(deadline) {
				break
			}
			o := run(c)
			if has(o) {
				best, bestOut = c, o
				improved = true
				break
			}
		}
	}
	// final execution of the minimised scenario for the recorded hash
	bestOut = run(best)
	return best, bestOut, execs
}

// ---------------------------------------------------------------------------------------
// determinism self-test

func selftestDeterminism(props []string, n int, seed int64) int {
	bad := 0
	total := 0
	for _, prop := range props {
		if engines[propertyEngine[prop]] == nil {
			continue
		}
		hashes := make([][]string, 0, 4)
		for _, gmp := range []string{"1", "4", "16", "2"} {
			os.Setenv("VERIF_WORKER_GOMAXPROCS", gmp)
			reqs := make([]*request, n)
			for i := range reqs {
				reqs[i] = &request{Gen: true, Property: prop, Seed: seed, Index: i, Tier: "quick"}
			}
			hs := make([]string, n)
			p := &pool{n: 8, reqTO: watchdogTimeout(), recycleN: 7 + len(hashes)*5}
			p.runAll(reqs, func(i int, o *Outcome, _ []string) {
				hs[i] = o.LogSHA256 + fmt.Sprint(len(o.Verdicts))
				if o.Error != "" {
					hs[i] = "ERROR " + o.Error
				}
			}, time.Time{})
			hashes = append(hashes, hs)
		}
		for i := 0; i < n; i++ {
			total++
			for k := 1; k < len(hashes); k++ {
				if hashes[k][i] != hashes[0][i] {
					bad++
					fmt.Printf("NONDETERMINISTIC property=%s seed=%d index=%d: %s vs %s\n", prop, seed, i, hashes[0][i], hashes[k][i])
					break
				}
			}
		}
		fmt.Printf("selftest-determinism: property=%s %d scenarios × 4 executions (GOMAXPROCS 1/4/16/2, different worker processes)\n", prop, n)
	}
	if bad > 0 {
		fmt.Printf("selftest-determinism: FAILED, %d of %d scenarios diverged\n", bad, total)
		return 2
	}
	fmt.Printf("selftest-determinism: ok, %d scenarios\n", total)
	return 0
}
