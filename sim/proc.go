package main

// One simulated klog process = one synctest bubble: the real klog code runs in a child
// goroutine, the controller (root goroutine of the bubble) decides which parked goroutine
// runs next, advances the fake clock, injects clock jumps and signals. See DESIGN.md §3.1.

import (
	"fmt"
	"os"
	"path/filepath"
	"runtime"
	"sort"
	"strings"
	"sync"
	"testing/synctest"
	"time"

	"github.com/jotaen/klog/klog/app"
	"github.com/jotaen/klog/klog/app/cli/util"
	klogmain "github.com/jotaen/klog/klog/app/main"
	"github.com/jotaen/klog/klog/verifsim"
)

const quantum = 500 * time.Millisecond

// TimeStep is one step of the time plan of a long-running process (pause).
type TimeStep struct {
	AdvanceS int        `json:"advance_s,omitempty"` // let simulated time pass
	JumpS    int        `json:"jump_s,omitempty"`    // step the wall clock (suspend/resume, NTP)
	Edit     *EditFault `json:"edit,omitempty"`      // somebody else changes a file while the process runs
}

// ProcSpec is everything that decides one simulated process.
type ProcSpec struct {
	Argv             []string
	Fn               func() (int, error) // direct entry (par/rot engines) instead of Argv
	Tape             []int
	MapTape          []int
	MapOrder         bool
	Plan             verifsim.FaultPlan
	Base             time.Time
	ZoneMin          int
	ZoneName         string
	Root             string
	Stdin            string
	Cpus             int
	Env              map[string]string
	Steps            []TimeStep                                      // for pause / --follow: time plan, then SIGINT
	LongRun          bool                                            // process is expected to run until SIGINT
	BeforeFirstWrite func()                                          // runs once inside the process, right before its first writing file-system call
	OnEdit           func(e *EditFault, readsSoFar, writesSoFar int) // applies a mid-run edit (controller context: everybody else is blocked)
}

// Decision is one scheduler decision: who was parked, who was picked.
type Decision struct {
	Parked []int
	Kinds  []string
	Pick   int
}

// ProcResult is everything observable about one simulated process.
type ProcResult struct {
	ExitCode   int
	ErrText    string
	Failed     bool // klog reported failure (err != nil or exit code != 0)
	Crashed    bool
	PanicValue string
	PanicSite  string
	PanicStack string
	Killed     bool // injected kill / torn write / SIGINT with default action
	ExitedVia  bool // the process called os.Exit itself
	Hang       bool
	Leaked     int
	Stdout     string
	Events     []verifsim.Event
	Decisions  []Decision
	ElapsedSim time.Duration
	Fired      map[string]int
	SeamEvents int
	Yields     int
	MapRanges  int
	MapPerm    int
	Uncontrol  int
	Writes     int
	Reads      int
	EndClock   time.Time
	Root       string
}

// stdoutNorm is the output with the scratch root replaced, so that logs do not depend on
// the name of the scratch directory.
func (r *ProcResult) stdoutNorm() string {
	if r.Root == "" {
		return r.Stdout
	}
	return strings.ReplaceAll(r.Stdout, r.Root, "$ROOT")
}

// Alive reports whether the process ran to its own end (not killed by the simulator).
func (r *ProcResult) Alive() bool { return !r.Killed && !r.Crashed && !r.Hang }

func envGetter(env map[string]string) func(string) string {
	return func(k string) string { return env[k] }
}

// klogMain re-states main() of /repo/klog.go (the only stub): config folder, config.ini,
// app.NewConfig, then the real klog.Run.
func klogMain(spec *ProcSpec) (int, error) {
	get := envGetter(spec.Env)
	var klogFolder app.File
	for _, kf := range app.KLOG_CONFIG_FOLDER {
		basePath := get(kf.BasePathEnvVar)
		if basePath != "" {
			f, err := app.NewFile(basePath, kf.Location)
			if err != nil {
				return app.CONFIG_ERROR.ToInt(), util.PrettifyAppError(err, false)
			}
			klogFolder = f
			break
		}
	}
	if klogFolder == nil {
		return app.CONFIG_ERROR.ToInt(), fmt.Errorf("Cannot determine klog config folder")
	}
	configFile := ""
	contents, rErr := app.ReadFile(app.Join(klogFolder, app.CONFIG_FILE_NAME))
	if rErr != nil {
		if rErr.Code() != app.NO_SUCH_FILE {
			return app.CONFIG_ERROR.ToInt(), util.PrettifyAppError(rErr, false)
		}
	} else {
		configFile = contents
	}
	config, cErr := app.NewConfig(
		app.FromDeterminedValues{NumCpus: spec.Cpus},
		app.FromEnvVars{GetVar: get},
		app.FromConfigFile{FileContents: configFile},
	)
	if cErr != nil {
		return app.CONFIG_ERROR.ToInt(), util.PrettifyAppError(cErr, false)
	}
	code, err := klogmain.Run(klogFolder, app.Meta{Specification: "spec", License: "license", Version: "v0.0", SrcHash: "abcdef1"}, config, spec.Argv)
	if err != nil {
		// main(): fail(err, code) prints the error and exits with the code
		verifsim.Println(err)
	}
	return code, err
}

var stdinMu sync.Mutex

// runProc executes one simulated process to its end and reports what happened.
func runProc(spec *ProcSpec) (res ProcResult) {
	stdinMu.Lock()
	defer stdinMu.Unlock()

	// stdin: a real file with the given content (klog reads os.Stdin directly)
	oldStdin := os.Stdin
	stdinPath := filepath.Join(spec.Root, ".stdin")
	if spec.Root == "" {
		stdinPath = filepath.Join(os.TempDir(), fmt.Sprintf(".verif-stdin-%d", os.Getpid()))
	}
	_ = os.WriteFile(stdinPath, []byte(spec.Stdin), 0o600)
	if f, err := os.Open(stdinPath); err == nil {
		os.Stdin = f
		defer func() { f.Close(); os.Stdin = oldStdin; os.Remove(stdinPath) }()
	}

	// stdout: klog prints through fmt.Print* (redirected by the instrumenter); should a change make
	// it write to os.Stdout directly, that output is collected too (appended after the captured one)
	oldStdout := os.Stdout
	stdoutPath := stdinPath + ".out"
	var stdoutFile *os.File
	if f, err := os.OpenFile(stdoutPath, os.O_RDWR|os.O_CREATE|os.O_TRUNC, 0o600); err == nil {
		stdoutFile = f
		os.Stdout = f
	}
	defer func() {
		os.Stdout = oldStdout
		if stdoutFile != nil {
			if b, err := os.ReadFile(stdoutPath); err == nil && len(b) > 0 {
				res.Stdout += string(b)
			}
			stdoutFile.Close()
			os.Remove(stdoutPath)
		}
	}()

	defer func() {
		if r := recover(); r != nil {
			// synctest panics when the bubble's root returns while goroutines are still blocked
			msg := fmt.Sprint(r)
			if strings.Contains(msg, "deadlock") {
				if res.Leaked == 0 {
					res.Leaked = 1
				}
				return
			}
			panic(r)
		}
	}()

	synctest.Run(func() {
		s := verifsim.New()
		s.Base = spec.Base
		s.BubbleStart = time.Now()
		s.Zone = location(spec.ZoneMin, spec.ZoneName)
		s.Tape = &verifsim.Tape{Vals: spec.Tape}
		s.MapTape = &verifsim.Tape{Vals: spec.MapTape}
		s.MapOrder = spec.MapOrder
		s.Plan = spec.Plan
		s.BeforeFirstWrite = spec.BeforeFirstWrite
		s.Root = spec.Root
		verifsim.Activate(s)

		var mu sync.Mutex
		finished := false
		var code int
		var err error
		go func() {
			s.RegisterMain()
			defer func() {
				if r := recover(); r != nil && !verifsim.IsExitSentinel(r) {
					buf := make([]byte, 32<<10)
					n := runtime.Stack(buf, false)
					s.RecordPanic(r, string(buf[:n]))
				}
				s.MainDone()
				mu.Lock()
				finished = true
				mu.Unlock()
			}()
			if spec.Fn != nil {
				code, err = spec.Fn()
			} else {
				code, err = klogMain(spec)
			}
		}()
		isFinished := func() bool { mu.Lock(); defer mu.Unlock(); return finished }

		steps := append([]TimeStep(nil), spec.Steps...)
		var advanceUntil time.Time
		advancing := false
		interrupted := false
		var overtime time.Time
		idleQuanta := 0
		const idleLimit = 12 // 3 simulated seconds without anybody runnable = hang
		for iter := 0; ; iter++ {
			synctest.Wait()
			if isFinished() {
				break
			}
			if s.Dead() {
				// crashed in another goroutine, killed at a seam, or exited via os.Exit: the
				// process is gone at this instant, whatever its other goroutines were doing
				break
			}
			parked := s.Parked()
			if os.Getenv("VERIF_DEBUG_CTRL") != "" && iter%50 == 0 {
				fmt.Fprintf(os.Stderr, "ctrl iter=%d now=%s parked=%d advancing=%v interrupted=%v idle=%d steps=%d\n", iter, time.Now().Format("15:04:05.000"), len(parked), advancing, interrupted, idleQuanta, len(steps))
			}
			if !overtime.IsZero() && time.Now().After(overtime) {
				// the time plan is over (and the interrupt, if any, was delivered) but the process keeps itself
				// busy with timers: it will never end
				res.Hang = true
				break
			}
			if len(parked) > 0 {
				d := Decision{}
				for _, g := range parked {
					d.Parked = append(d.Parked, g.ID)
					d.Kinds = append(d.Kinds, g.Kind)
				}
				d.Pick = s.Tape.Next(len(parked))
				res.Decisions = append(res.Decisions, d)
				s.Release(parked[d.Pick])
				idleQuanta = 0
				continue
			}
			// nobody is runnable: main is blocked on a timer, a channel or forever
			if advancing {
				if time.Now().Before(advanceUntil) {
					time.Sleep(quantum)
					continue
				}
				advancing = false
			}
			if len(steps) > 0 {
				st := steps[0]
				steps = steps[1:]
				if st.JumpS != 0 {
					s.Jump(time.Duration(st.JumpS) * time.Second)
				}
				if st.Edit != nil && spec.OnEdit != nil {
					spec.OnEdit(st.Edit, s.ReadCalls(), s.WriteCalls())
				}
				if st.AdvanceS > 0 {
					advancing = true
					advanceUntil = time.Now().Add(time.Duration(st.AdvanceS) * time.Second)
				}
				continue
			}
			if spec.LongRun && !interrupted {
				interrupted = true
				s.Interrupt()
				continue
			}
			if overtime.IsZero() {
				overtime = time.Now().Add(120 * time.Second)
			}
			idleQuanta++
			if idleQuanta > idleLimit || iter > 2_000_000 {
				res.Hang = true
				break
			}
			time.Sleep(quantum)
		}
		// end of process: unwind whatever is left
		res.EndClock = s.SimNow()
		res.ElapsedSim = time.Since(s.BubbleStart)
		s.Shutdown()
		synctest.Wait()
		for i := 0; i < 12 && s.Live() > 0; i++ {
			for _, g := range s.Parked() {
				s.Release(g)
			}
			// goroutines blocked on a timer unwind at their first seam after it fires
			time.Sleep(quantum)
			synctest.Wait()
		}
		res.Leaked = s.Live()

		exited, exitCode, crashed, pv, ps, killed := s.State()
		res.Crashed = crashed
		res.PanicValue = pv
		res.PanicStack = ps
		res.PanicSite = panicSite(ps)
		res.Killed = killed
		res.ExitedVia = exited
		switch {
		case crashed:
			res.ExitCode = 2 // Go runtime exit status for a panic
			res.Failed = true
		case exited:
			res.ExitCode = exitCode
			res.Failed = exitCode != 0
		default:
			res.ExitCode = code
			if err != nil {
				res.ErrText = err.Error()
			}
			res.Failed = err != nil || code != 0
		}
		res.Stdout = s.Output()
		res.Root = spec.Root
		res.Events = s.Events()
		res.Fired = s.FiredCounts()
		res.SeamEvents, res.Yields, res.MapRanges, res.MapPerm, res.Uncontrol = s.Snapshot()
		res.Writes = s.WriteCalls()
		res.Reads = s.ReadCalls()
	})
	return res
}

// panicSite extracts "<panic-free innermost frame inside klog>" from a stack trace taken in
// the deferred recover of the panicking goroutine.
func panicSite(stack string) string {
	if stack == "" {
		return ""
	}
	lines := strings.Split(stack, "\n")
	seenPanic := false
	for _, l := range lines {
		if strings.HasPrefix(l, "panic(") || strings.HasPrefix(l, "runtime.gopanic") {
			seenPanic = true
			continue
		}
		if !seenPanic || strings.HasPrefix(l, "\t") {
			continue
		}
		if strings.HasPrefix(l, "github.com/jotaen/klog") && !strings.Contains(l, "/verifsim.") {
			fn := l
			if i := strings.LastIndex(fn, "("); i > 0 {
				fn = fn[:i]
			}
			fn = strings.TrimPrefix(fn, "github.com/jotaen/klog/")
			// strip generic instantiation noise and closure counters
			fn = strings.ReplaceAll(fn, "[...]", "")
			return fn
		}
	}
	return "unknown"
}

// eventLogLines renders the event log, decisions and end state of a process canonically.
func (r *ProcResult) logLines() []string {
	var out []string
	for _, d := range r.Decisions {
		out = append(out, fmt.Sprintf("sched %v %v -> %d", d.Parked, d.Kinds, d.Pick))
	}
	for _, e := range r.Events {
		out = append(out, fmt.Sprintf("g%d %s", e.G, e.What))
	}
	keys := make([]string, 0, len(r.Fired))
	for k := range r.Fired {
		keys = append(keys, k)
	}
	sort.Strings(keys)
	for _, k := range keys {
		out = append(out, fmt.Sprintf("fired %s %d", k, r.Fired[k]))
	}
	out = append(out, fmt.Sprintf("end code=%d failed=%v crashed=%v killed=%v exited=%v hang=%v site=%s stdout=%d:%s",
		r.ExitCode, r.Failed, r.Crashed, r.Killed, r.ExitedVia, r.Hang, r.PanicSite, len(r.stdoutNorm()), fnv(r.stdoutNorm())))
	return out
}
