package main

// A tiny self-contained PRNG (splitmix64) so that generation is a pure function of the
// seed, independent of Go's math/rand implementation.

import "strconv"

type Rng struct{ s uint64 }

func newRng(seed int64, salts ...string) *Rng {
	r := &Rng{s: uint64(seed)*0x9E3779B97F4A7C15 + 0x1234567}
	for _, salt := range salts {
		for _, c := range []byte(salt) {
			r.s = (r.s ^ uint64(c)) * 0x100000001b3
		}
		r.next()
	}
	r.next()
	return r
}

func (r *Rng) next() uint64 {
	r.s += 0x9E3779B97F4A7C15
	z := r.s
	z = (z ^ (z >> 30)) * 0xBF58476D1CE4E5B9
	z = (z ^ (z >> 27)) * 0x94D049BB133111EB
	return z ^ (z >> 31)
}

// Intn returns a value in [0,n).
func (r *Rng) Intn(n int) int {
	if n <= 1 {
		return 0
	}
	return int(r.next() % uint64(n))
}

// Range returns a value in [lo,hi].
func (r *Rng) Range(lo, hi int) int { return lo + r.Intn(hi-lo+1) }

// Chance is true with probability num/den.
func (r *Rng) Chance(num, den int) bool { return r.Intn(den) < num }

func (r *Rng) Pick(xs []string) string { return xs[r.Intn(len(xs))] }

func (r *Rng) Tape(n, max int) []int {
	t := make([]int, n)
	for i := range t {
		t[i] = r.Intn(max)
	}
	return t
}

func fnv(s string) string {
	h := uint64(14695981039346656037)
	for i := 0; i < len(s); i++ {
		h ^= uint64(s[i])
		h *= 1099511628211
	}
	return strconv.FormatUint(h, 16)
}

// Pick2Cmd picks one command line.
func (r *Rng) Pick2Cmd(xs [][]string) []string { return xs[r.Intn(len(xs))] }
