package main

// Harness-side dump of what the parser returns, through public accessors only.

import (
	"fmt"
	"os"
	"runtime"
	"strings"

	"github.com/jotaen/klog/klog"
	"github.com/jotaen/klog/klog/parser"
	"github.com/jotaen/klog/klog/parser/txt"
)

// DTime is a time of day with its shift and notation.
type DTime struct {
	Mins  int    `json:"mins"` // minutes since midnight of the record's date (negative: previous day, ≥1440: next day)
	Is12h bool   `json:"is12h,omitempty"`
	Text  string `json:"text"`
}

// DEntry is one entry of a record.
type DEntry struct {
	Kind    string   `json:"kind"` // "duration" | "range" | "open"
	Mins    int      `json:"mins"` // total minutes (0 for open range)
	Start   *DTime   `json:"start,omitempty"`
	End     *DTime   `json:"end,omitempty"`
	Text    string   `json:"text"` // klog's serialisation of the value
	Spaces  bool     `json:"spaces,omitempty"`
	Extra   int      `json:"extra,omitempty"` // additional placeholder chars
	Summary []string `json:"summary"`
}

// DRecord is one record.
type DRecord struct {
	Y, M, D   int
	DateText  string   `json:"date_text"`
	Dashes    bool     `json:"dashes"`
	HasShould bool     `json:"has_should"`
	Should    int      `json:"should"`
	Summary   []string `json:"summary"`
	Entries   []DEntry `json:"entries"`
}

func dumpTime(t klog.Time) *DTime {
	return &DTime{Mins: t.MidnightOffset().InMinutes(), Is12h: !t.Format().Use24HourClock, Text: t.ToString()}
}

func dumpRecord(r klog.Record) DRecord {
	d := DRecord{Y: r.Date().Year(), M: r.Date().Month(), D: r.Date().Day(), DateText: r.Date().ToString(), Dashes: r.Date().Format().UseDashes}
	if st := r.ShouldTotal(); st != nil {
		d.HasShould = strings.HasSuffix(st.ToString(), "!")
		d.Should = st.InMinutes()
	}
	d.Summary = append([]string{}, r.Summary().Lines()...)
	for _, e := range r.Entries() {
		e := e
		de := klog.Unbox[DEntry](&e,
			func(rg klog.Range) DEntry {
				return DEntry{Kind: "range", Mins: rg.Duration().InMinutes(), Start: dumpTime(rg.Start()), End: dumpTime(rg.End()), Text: rg.ToString(), Spaces: rg.Format().UseSpacesAroundDash}
			},
			func(du klog.Duration) DEntry {
				return DEntry{Kind: "duration", Mins: du.InMinutes(), Text: du.ToString()}
			},
			func(or klog.OpenRange) DEntry {
				return DEntry{Kind: "open", Start: dumpTime(or.Start()), Text: or.ToString(), Spaces: or.Format().UseSpacesAroundDash, Extra: or.Format().AdditionalPlaceholderChars}
			})
		de.Summary = append([]string{}, e.Summary().Lines()...)
		d.Entries = append(d.Entries, de)
	}
	return d
}

func dumpRecords(rs []klog.Record) []DRecord {
	out := make([]DRecord, 0, len(rs))
	for _, r := range rs {
		out = append(out, dumpRecord(r))
	}
	return out
}

func recordString(d DRecord) string {
	var b strings.Builder
	fmt.Fprintf(&b, "%04d-%02d-%02d[%s,%v] should=%v/%d sum=%q", d.Y, d.M, d.D, d.DateText, d.Dashes, d.HasShould, d.Should, d.Summary)
	for _, e := range d.Entries {
		fmt.Fprintf(&b, " | %s %d %q", e.Kind, e.Mins, e.Text)
		if e.Start != nil {
			fmt.Fprintf(&b, " s=%d/%v", e.Start.Mins, e.Start.Is12h)
		}
		if e.End != nil {
			fmt.Fprintf(&b, " e=%d/%v", e.End.Mins, e.End.Is12h)
		}
		fmt.Fprintf(&b, " sp=%v x=%d sum=%q", e.Spaces, e.Extra, e.Summary)
	}
	return b.String()
}

// DLine / DBlock / DError dump text blocks and errors.
type DBlock struct {
	Lines []string // text + "|" + quoted line ending + "@" overall index
}

func dumpBlocks(bs []txt.Block) []string {
	var out []string
	for bi, b := range bs {
		for li, l := range b.Lines() {
			out = append(out, fmt.Sprintf("b%d l%d @%d %q %q", bi, li, b.OverallLineIndex(li), l.Text, l.LineEnding))
		}
	}
	return out
}

func dumpErrors(es []txt.Error) []string {
	var out []string
	for _, e := range es {
		out = append(out, fmt.Sprintf("line=%d pos=%d col=%d len=%d code=%s title=%q details=%q text=%q msg=%q",
			e.LineNumber(), e.Position(), e.Column(), e.Length(), e.Code(), e.Title(), e.Details(), e.LineText(), e.Message()))
	}
	return out
}

// ParseDump is the complete observable result of one parse.
type ParseDump struct {
	Panic    string
	Site     string
	NilRecs  bool
	NilErrs  bool
	Records  []string
	Blocks   []string
	Errors   []string
	NRecords int
	NBlocks  int
	NErrors  int
}

func (p *ParseDump) diff(q *ParseDump) (rule, detail string) {
	if p.Panic != "" || q.Panic != "" {
		if p.Panic != q.Panic {
			return "panic", fmt.Sprintf("serial panic=%q parallel panic=%q site=%s", p.Panic, q.Panic, q.Site)
		}
		return "", ""
	}
	if p.NilRecs != q.NilRecs || p.NilErrs != q.NilErrs {
		return "shape", fmt.Sprintf("serial nil(records,errs)=(%v,%v) parallel=(%v,%v)", p.NilRecs, p.NilErrs, q.NilRecs, q.NilErrs)
	}
	if d := firstDiff(p.Records, q.Records); d != "" {
		return "records-differ", d
	}
	if d := firstDiff(p.Blocks, q.Blocks); d != "" {
		return "blocks-differ", d
	}
	if d := firstDiff(p.Errors, q.Errors); d != "" {
		return "errors-differ", d
	}
	return "", ""
}

func firstDiff(a, b []string) string {
	for i := 0; i < len(a) || i < len(b); i++ {
		var x, y string
		if i < len(a) {
			x = a[i]
		} else {
			x = "<missing>"
		}
		if i < len(b) {
			y = b[i]
		} else {
			y = "<missing>"
		}
		if x != y {
			return fmt.Sprintf("#%d serial: %s | parallel: %s", i, x, y)
		}
	}
	return ""
}

func buildParseDump(rs []klog.Record, bs []txt.Block, es []txt.Error) ParseDump {
	d := ParseDump{NilRecs: rs == nil, NilErrs: es == nil, NRecords: len(rs), NBlocks: len(bs), NErrors: len(es)}
	for _, r := range dumpRecords(rs) {
		d.Records = append(d.Records, recordString(r))
	}
	d.Blocks = dumpBlocks(bs)
	d.Errors = dumpErrors(es)
	return d
}

func (p *ParseDump) hash() string {
	return fnv(fmt.Sprintf("%q|%v|%v|%q|%q|%q", p.Panic, p.NilRecs, p.NilErrs, p.Records, p.Blocks, p.Errors))
}

func parseSerialDump(text string) (d ParseDump) {
	defer func() {
		if r := recover(); r != nil {
			buf := make([]byte, 16<<10)
			n := runtime.Stack(buf, false)
			d = ParseDump{Panic: fmt.Sprint(r), Site: panicSite(string(buf[:n]))}
		}
	}()
	rs, bs, es := parser.NewSerialParser().Parse(text)
	return buildParseDump(rs, bs, es)
}

var scratchCounter int

// mkScratch creates a scratch directory whose path has a fixed length, so that nothing
// derived from path lengths (file sizes, cut positions of torn writes) varies between runs.
func mkScratch(kind string) (string, error) {
	for {
		scratchCounter++
		p := fmt.Sprintf("%s/verif-%s-%07d-%06d", scratchBase(), kind, os.Getpid()%10000000, scratchCounter%1000000)
		err := os.Mkdir(p, 0o700)
		if err == nil {
			return p, nil
		}
		if !os.IsExist(err) {
			return "", err
		}
	}
}

func scratchBase() string {
	if v := os.Getenv("VERIF_SCRATCH"); v != "" {
		return v
	}
	if fi, err := os.Stat("/dev/shm"); err == nil && fi.IsDir() {
		return "/dev/shm"
	}
	return os.TempDir()
}

// normRoot replaces the scratch root by $ROOT, including a truncated occurrence at the very
// end (what a torn write leaves), so that hashes do not depend on the scratch directory name.
func normRoot(s, root string) string {
	if root == "" {
		return s
	}
	s = strings.ReplaceAll(s, root, "$ROOT")
	for n := len(root) - 1; n >= 8; n-- {
		if strings.HasSuffix(s, root[:n]) {
			return s[:len(s)-n] + fmt.Sprintf("$ROOT[:%d]", n)
		}
	}
	return s
}
