package main

// par engine — C07: the parallel parser under a seeded schedule must be indistinguishable
// from the serial parser (DESIGN.md §5.5).

import (
	"encoding/base64"
	"encoding/json"
	"fmt"
	"os"
	"path/filepath"
	"regexp"
	"strconv"
	"strings"
	"time"
	"unicode/utf8"

	"github.com/jotaen/klog/klog/parser"
)

type ParCase struct {
	TextB64 string   `json:"text_b64"`
	Text    string   `json:"text_preview,omitempty"` // informational only
	Origin  string   `json:"origin"`
	Workers int      `json:"workers"`
	Tape    []int    `json:"tape"`
	Cmd     []string `json:"cmd,omitempty"`     // system-level corollary: run this command at 1 and at Workers CPUs
	NFiles  int      `json:"n_files,omitempty"` // the text is split into this many input files (record-wise)
	Via     string   `json:"via,omitempty"`     // how a command gets the text: "" file argument | stdin | default (default bookmark, no argument) | bookmark (@b)
}

// deliver arranges how a command finds its input (file argument, piped into stdin, default bookmark, @bookmark)
// and returns the arguments and the stdin content. Mutating commands always get the file argument.
func deliver(via string, cmd []string, file, cfgDir string) (argv []string, stdin string, how string) {
	argv = append([]string{}, cmd...)
	if mutatingCmd[cmd[0]] {
		via = ""
	}
	bookmarks := func(name string) {
		bj, _ := json.Marshal([]map[string]string{{"name": name, "path": file}})
		_ = os.WriteFile(filepath.Join(cfgDir, "bookmarks.json"), bj, 0o644)
	}
	_ = os.Remove(filepath.Join(cfgDir, "bookmarks.json"))
	switch via {
	case "stdin":
		b, _ := os.ReadFile(file)
		return argv, string(b), "stdin"
	case "default":
		bookmarks("default")
		return argv, "", "default"
	case "bookmark":
		bookmarks("b")
		return append(argv, "@b"), "", "bookmark"
	}
	return append(argv, file), "", "file"
}

func (p *ParCase) text() string {
	b, _ := base64.StdEncoding.DecodeString(p.TextB64)
	return string(b)
}

func (p *ParCase) setText(s string) {
	p.TextB64 = base64.StdEncoding.EncodeToString([]byte(s))
	p.Text = shortText(s, 200)
}

var hugeNumberRe = regexp.MustCompile(`\d{15,}`)

type parEngine struct{}

func init() { engines["par"] = parEngine{} }

var fragments = []string{"2020-01-01", "2020/01/02", "\n", "\n", "\r\n", "    ", "  ", "\t", "1h", "-30m", "8:00 - 9:00", "8:00-?", " ", "#tag", "読む", "é",
	"(8h!)", "Summary", "\n\n", " \n", "\t\n", "1:00pm", "<23:00 - 1:00>", "x", "?", "\xff", "\xc3", "\r", "0m"}

// largeDoc: a valid file of 70-300 KiB (thousands of short records) - sizes at which an implementation may switch
// strategy (thresholds, buffers); one record in the middle may be invalid.
func largeDoc(r *Rng, capKiB int) (string, string) {
	size := min(r.Pick2([]int{70, 70, 130, 300}), capKiB) << 10
	var b strings.Builder
	day := time.Date(2000, 1, 1, 12, 0, 0, 0, time.UTC)
	bad := r.Chance(1, 4)
	entries := []string{"    1h\n", "    8:00 - 9:00 work\n", "    30m #x\n    2h\n", "    9:00-12:30 #tag=1 some text that is a little longer\n    -30m lunch\n"}
	for b.Len() < size {
		day = day.AddDate(0, 0, 1)
		b.WriteString(day.Format("2006-01-02") + "\n")
		if bad && b.Len() > size/2 {
			b.WriteString("    13:00 - 12:00\n")
			bad = false
		} else {
			b.WriteString(entries[r.Intn(len(entries))])
		}
		b.WriteString("\n")
	}
	return b.String(), fmt.Sprintf("large:%dk", size>>10)
}

func genParText(r *Rng) (string, string) {
	today := time.Date(2024, 3, 15, 12, 0, 0, 0, time.UTC)
	if r.Chance(1, 80) {
		return largeDoc(r, 300)
	}
	switch k := r.Intn(10); {
	case k < 5:
		d := genDoc(r, docOpts{today: today, maxRecords: r.Pick2([]int{1, 2, 3, 5, 8, 14})})
		return d.render(), "valid"
	case k < 8:
		d := genDoc(r, docOpts{today: today, maxRecords: r.Pick2([]int{1, 2, 3, 5, 8})})
		s := d.render()
		kind := damageKinds[r.Intn(len(damageKinds))]
		s = damage(r, s, kind)
		if r.Chance(1, 4) {
			k2 := damageKinds[r.Intn(len(damageKinds))]
			s = damage(r, s, k2)
			kind += "+" + k2
		}
		return s, "damaged:" + kind
	case k == 8 && r.Chance(2, 3):
		// several rule-violating lines in different records, clean records in between
		d := genDoc(r, docOpts{today: today, maxRecords: r.Pick2([]int{6, 8, 10, 14, 20})})
		lines := strings.SplitAfter(d.render(), "\n")
		nerr := r.Range(2, 4)
		for e := 0; e < nerr && len(lines) > 0; e++ {
			i := r.Intn(len(lines))
			l := lines[i]
			if strings.Trim(l, " \t\r\n") == "" {
				continue
			}
			switch r.Intn(4) {
			case 0:
				lines[i] = " " + l // wrong indentation
			case 1:
				lines[i] = strings.Replace(l, ":", ";", 1)
			case 2:
				lines[i] = strings.TrimRight(l, "\r\n") + " (x" + l[len(strings.TrimRight(l, "\r\n")):]
				if !strings.HasPrefix(l, " ") && !strings.HasPrefix(l, "\t") {
					lines[i] = "x" + l
				}
			default:
				lines[i] = strings.Replace(l, "-", "--", 1)
			}
		}
		return strings.Join(lines, ""), "errlines"
	case k == 8:
		// many short records and 2-4 invalid ones spread evenly: with a few workers every chunk has an invalid
		// record strictly inside it (what each worker finds on its own, not the main goroutine at the seams)
		n := r.Pick2([]int{24, 36, 48, 64, 96})
		parts := r.Pick2([]int{2, 3, 4})
		var b strings.Builder
		day := today.AddDate(0, 0, -n)
		bad := map[int]bool{}
		for j := 0; j < parts; j++ {
			bad[(2*j+1)*n/(2*parts)+r.Range(-1, 1)] = true
		}
		for i := 0; i < n; i++ {
			day = day.AddDate(0, 0, 1)
			b.WriteString(day.Format("2006-01-02") + "\n")
			if bad[i] {
				b.WriteString(r.Pick([]string{"    13:00 - 12:00\n", "    8:00 - 25:00\n", "  \t 1h\n    2h\n", "    1h\n   2h\n", "    -\n"}))
			} else {
				b.WriteString(r.Pick([]string{"    1h\n", "    8:00 - 9:00 work\n", "    30m #x\n    2h\n"}))
			}
			b.WriteString("\n")
		}
		return b.String(), fmt.Sprintf("errspread:%d", parts)
	default:
		n := r.Range(0, 24)
		var b strings.Builder
		for i := 0; i < n; i++ {
			b.WriteString(r.Pick(fragments))
		}
		return b.String(), "fragments"
	}
}

func (parEngine) generate(property string, seed int64, index int, tier string) *Scenario {
	r := newRng(seed, "par", property, fmt.Sprint(index))
	text, origin := genParText(r)
	L := len(text)
	var n int
	switch r.Intn(9) {
	case 0:
		n = 1
	case 1, 2:
		n = r.Range(2, 8)
	case 3:
		n = strings.Count(text, "\n") + r.Range(0, 2)
	case 4:
		n = L/2 + r.Range(0, 1)
	case 5:
		n = L + r.Range(0, 2)
	case 6:
		n = r.Range(1, L+2)
	case 7:
		n = r.Pick2([]int{2, 3, 4, 16})
	default:
		n = r.Range(2, 5)
	}
	if strings.HasPrefix(origin, "large:") {
		n = r.Pick2([]int{2, 3, 4, 8, 16, 16, 64})
	}
	if strings.HasPrefix(origin, "errspread:") && r.Chance(3, 4) {
		n, _ = strconv.Atoi(strings.TrimPrefix(origin, "errspread:"))
	}
	if n < 1 {
		n = 1
	}
	if n > 600 {
		n = 600
	}
	pc := &ParCase{Origin: origin, Workers: n, Tape: r.Tape(3*n+8, 64)}
	if r.Chance(1, 8) {
		// the natural-looking schedule: always the lowest ordinal
		pc.Tape = nil
	}
	if r.Chance(1, 12) {
		// system-level corollary: a whole command at 1 CPU and at n CPUs
		cmds := [][]string{{"print"}, {"print", "--with-totals"}, {"total"}, {"total", "--diff"}, {"json"}, {"json", "--pretty"}, {"tags"}, {"today"},
			{"report"}, {"report", "--aggregate=week"}, {"track", "1h #x"}, {"start", "--time=9:00"}, {"stop", "--time=23:00"}, {"create", "--date=2024-03-13"}}
		pc.Cmd = cmds[r.Intn(len(cmds))]
		if r.Chance(1, 3) {
			pc.Cmd = genEvalCommand(r) // randomly drawn flags, values and spellings
		}
		if pc.Workers > 40 {
			pc.Workers = r.Range(2, 40)
		}
		if pc.Workers < 2 {
			pc.Workers = 2
		}
		if r.Chance(1, 3) {
			// several input files (more files than CPUs included): read-only commands only
			pc.NFiles = r.Range(2, 6)
			if mutatingCmd[pc.Cmd[0]] {
				pc.Cmd = cmds[r.Intn(10)]
			}
			pc.Workers = r.Pick2([]int{2, 2, 3, 4, 8})
		} else if r.Chance(1, 3) {
			pc.Via = r.Pick([]string{"stdin", "stdin", "default", "bookmark"})
		}
	}
	pc.setText(text)
	return &Scenario{Format: 1, Property: property, Engine: "par", Seed: seed, Index: index, Tier: tier, Par: pc}
}

// chunkFacts recomputes the chunk boundaries for coverage accounting only (never for the oracle).
func chunkFacts(text string, n int) (nonEmpty int, facts []string) {
	if n <= 0 {
		return 0, nil
	}
	size := (len(text) + n - 1) / n
	if size == 0 {
		return 0, nil
	}
	seen := map[string]bool{}
	pos := 0
	for i := 0; i < n && pos < len(text); i++ {
		next := pos + size
		for next < len(text) && !utf8.RuneStart(text[next]) {
			next++
			seen["boundary_moved_off_rune"] = true
		}
		if next > len(text) {
			next = len(text)
		}
		if next > pos {
			nonEmpty++
		}
		if next < len(text) && next > 0 {
			switch {
			case text[next-1] == '\r' && text[next] == '\n':
				seen["boundary_inside_crlf"] = true
			case text[next-1] == '\n' && (text[next] == '\n' || text[next] == '\r'):
				seen["boundary_between_blank_lines"] = true
			case text[next-1] == '\n':
				seen["boundary_at_line_start"] = true
			case text[next] == ' ' || text[next] == '\t' || text[next-1] == ' ' || text[next-1] == '\t':
				seen["boundary_in_whitespace"] = true
			default:
				seen["boundary_inside_line"] = true
			}
		}
		pos = next
	}
	for k := range seen {
		facts = append(facts, k)
	}
	return nonEmpty, facts
}

func (parEngine) execute(sc *Scenario) *Outcome {
	out := &Outcome{Index: sc.Index}
	pc := sc.Par
	text := pc.text()
	if len(pc.Cmd) > 0 {
		if os.Getenv("VERIF_FREE") != "" {
			// the free-running race side run only exercises the parser (no simulator, no bubble:
			// the race detector does not understand the bubble's internal synchronisation)
			out.stat("free_run_skipped_cmd", 1)
			out.finish()
			return out
		}
		return parExecuteCmd(sc, out)
	}
	// The parallel parse runs FIRST: process-wide state inside klog (caches, pools) must be met
	// cold by the workers, not warmed up by the reference run.
	var par ParseDump
	spec := &ProcSpec{
		Tape: pc.Tape,
		Base: time.Date(2024, 3, 15, 12, 0, 0, 0, time.UTC),
		Fn: func() (int, error) {
			rs, bs, es := parser.NewParallelParser(pc.Workers).Parse(text)
			par = buildParseDump(rs, bs, es)
			return 0, nil
		},
	}
	var res ProcResult
	free := os.Getenv("VERIF_FREE") != ""
	if free && hugeNumberRe.MatchString(text) {
		// absurdly large numbers panic in both engines (known findings); in a free run a panic in a
		// worker goroutine would take the whole process down, so such texts are left to the simulated runs
		out.stat("free_run_skipped_huge_number", 1)
		out.finish()
		return out
	}
	if free {
		// side run under the race detector: the goroutines run freely and truly in parallel
		// (no simulator), so that unsynchronised accesses are not ordered by the scheduler
		func() {
			defer func() {
				if r := recover(); r != nil {
					res.Crashed, res.PanicValue, res.PanicSite = true, fmt.Sprint(r), "free-run"
				}
			}()
			_, _ = spec.Fn()
		}()
	} else {
		res = runProc(spec)
	}
	serial := parseSerialDump(text)
	out.Procs = 1
	out.Log = append(out.Log, fmt.Sprintf("par text=%s n=%d", fnv(text), pc.Workers))
	out.Log = append(out.Log, res.logLines()...)
	if res.Crashed {
		par = ParseDump{Panic: res.PanicValue, Site: res.PanicSite}
	}
	out.Log = append(out.Log, "serial "+serial.hash(), "parallel "+par.hash())

	switch {
	case res.Hang:
		out.Verdicts = append(out.Verdicts, mkVerdict("C07", "deadlock", "Parse", fmt.Sprintf("parallel parse with %d workers never finished; parked=%v", pc.Workers, lastDecision(res)), 0))
	case serial.Panic != "" && par.Panic != "":
		out.Foreign = append(out.Foreign, mkVerdict("C06", "panic", serial.Site, serial.Panic, 0))
		out.stat("both_panic", 1)
	default:
		if rule, detail := serial.diff(&par); rule != "" {
			site := "Parse"
			if rule == "panic" {
				site = par.Site
				if par.Panic == "" {
					site = "serial:" + serial.Site
				}
			}
			out.Verdicts = append(out.Verdicts, mkVerdict("C07", rule, site, detail, 0))
		}
	}
	if res.Leaked > 0 && !res.Hang && !res.Crashed {
		out.stat("leaked_goroutines", 1)
	}
	// coverage accounting
	nonEmpty, facts := chunkFacts(text, pc.Workers)
	for _, f := range facts {
		out.stat(f, 1)
	}
	arrival := arrivalOrder(res)
	inOrder := true
	for i := 1; i < len(arrival); i++ {
		if arrival[i] < arrival[i-1] {
			inOrder = false
		}
	}
	out.stat("origin_"+strings.SplitN(pc.Origin, ":", 2)[0], 1)
	if serial.NErrors > 0 {
		out.stat("invalid_texts", 1)
	} else {
		out.stat("valid_texts", 1)
	}
	out.measure("texts", fnv(text))
	out.measure("schedule_traces", fnv(fmt.Sprint(schedTrace(res))))
	out.measure("arrival_orders", fnv(fmt.Sprint(arrival)))
	out.stat("yields", res.Yields)
	out.stat("decisions", len(res.Decisions))
	if res.Uncontrol > 0 {
		out.stat("uncontrolled_seams", res.Uncontrol)
	}
	if free && nonEmpty >= 2 {
		out.Distinct = append(out.Distinct, fnv(fmt.Sprintf("free|%s|%d", text, pc.Workers)))
	}
	// a schedule counts as explored when the workers did not simply run in their natural order: results arrived
	// out of order (channel sends) or, for implementations that do not send at all (result slots + WaitGroup), some
	// decision among two or more runnable goroutines did not take the first one
	permuted := false
	for _, d := range res.Decisions {
		if len(d.Parked) >= 2 && d.Pick != 0 {
			permuted = true
		}
	}
	if nonEmpty >= 2 && (!inOrder || (len(arrival) == 0 && permuted)) {
		out.stat("arrival_order_permuted", 1)
		out.Distinct = append(out.Distinct, fnv(fmt.Sprintf("%s|%d|%v", text, pc.Workers, schedTrace(res))))
	}
	if sc.Index%97 == 0 {
		out.Sample = map[string]any{"index": sc.Index, "origin": pc.Origin, "workers": pc.Workers, "text": shortText(text, 160),
			"arrival_order": arrival, "serial_records": serial.NRecords, "serial_errors": serial.NErrors}
	}
	out.finish()
	return out
}

func lastDecision(res ProcResult) string {
	if len(res.Decisions) == 0 {
		return "none"
	}
	d := res.Decisions[len(res.Decisions)-1]
	return fmt.Sprintf("%v/%v", d.Parked, d.Kinds)
}

// arrivalOrder lists the goroutine ordinals in the order in which they were released from
// their "send" yield, i.e. the order in which results reached the collector.
func arrivalOrder(res ProcResult) []int {
	var order []int
	for _, d := range res.Decisions {
		if d.Kinds[d.Pick] == "send" {
			order = append(order, d.Parked[d.Pick])
		}
	}
	return order
}

func schedTrace(res ProcResult) []int {
	var t []int
	for _, d := range res.Decisions {
		t = append(t, d.Parked[d.Pick])
	}
	return t
}

// parExecuteCmd: the same read-only command on the same file at 1 CPU and at k CPUs under
// a random schedule must print the same and exit the same.
func parExecuteCmd(sc *Scenario, out *Outcome) *Outcome {
	pc := sc.Par
	root, err := mkScratch("par")
	if err != nil {
		out.Error = err.Error()
		return out
	}
	defer os.RemoveAll(root)
	file := filepath.Join(root, "a.klg")
	_ = os.WriteFile(file, []byte(pc.text()), 0o644)
	_ = os.MkdirAll(filepath.Join(root, "cfg"), 0o755)
	if bigNumberRe.MatchString(pc.text()) {
		// `report --chart` on absurdly large totals dies of memory exhaustion with one CPU as with many (the recorded
		// C06 finding about unbounded durations, known_findings.json): nothing to compare, the chart is left out
		var cmd []string
		skipNext := false
		for _, a := range pc.Cmd {
			if skipNext {
				skipNext = false
				continue
			}
			if pc.Cmd[0] == "report" && (a == "--chart" || a == "-c" || strings.HasPrefix(a, "--chart-res")) {
				out.stat("chart_left_out_big_number", 1)
				skipNext = a == "--chart-res"
				continue
			}
			cmd = append(cmd, a)
		}
		pc = &ParCase{TextB64: pc.TextB64, Origin: pc.Origin, Workers: pc.Workers, Tape: pc.Tape, Cmd: cmd, NFiles: pc.NFiles, Via: pc.Via}
	}
	argv, stdin, how := deliver(pc.Via, pc.Cmd, file, filepath.Join(root, "cfg"))
	out.stat("input_via_"+how, 1)
	if pc.NFiles > 1 {
		// split the text record-wise (at blank lines) into NFiles files
		parts := splitAtBlankLines(pc.text(), pc.NFiles)
		argv = append([]string{}, pc.Cmd...)
		for i, part := range parts {
			f := filepath.Join(root, fmt.Sprintf("f%d.klg", i+1))
			_ = os.WriteFile(f, []byte(part), 0o644)
			argv = append(argv, f)
		}
	}
	after := map[int]string{}
	run := func(cpus int, tape []int) ProcResult {
		_ = os.WriteFile(file, []byte(pc.text()), 0o644)
		defer func() { b, _ := os.ReadFile(file); after[cpus] = string(b) }()
		return runProc(&ProcSpec{Argv: argv, Tape: tape, Cpus: cpus, Root: root, Stdin: stdin,
			Base: time.Date(2024, 3, 15, 12, 0, 0, 0, time.UTC),
			Env:  map[string]string{"KLOG_CONFIG_HOME": filepath.Join(root, "cfg"), "NO_COLOR": "1"}})
	}
	a := run(1, nil)
	b := run(pc.Workers, pc.Tape)
	out.Procs = 2
	out.Log = append(out.Log, fmt.Sprintf("parcmd %v text=%s n=%d", pc.Cmd, fnv(pc.text()), pc.Workers))
	out.Log = append(out.Log, a.logLines()...)
	out.Log = append(out.Log, b.logLines()...)
	site := strings.Join(pc.Cmd, "_")
	switch {
	case b.Hang && !a.Hang:
		out.Verdicts = append(out.Verdicts, mkVerdict("C07", "deadlock", site, "command hangs with several CPUs", 0))
	case a.Crashed && b.Crashed:
		out.Foreign = append(out.Foreign, mkVerdict("C06", "panic", a.PanicSite, a.PanicValue, 0))
	case a.Crashed != b.Crashed:
		out.Verdicts = append(out.Verdicts, mkVerdict("C07", "panic", b.PanicSite+a.PanicSite, fmt.Sprintf("1 cpu crashed=%v (%s), %d cpus crashed=%v (%s)", a.Crashed, a.PanicValue, pc.Workers, b.Crashed, b.PanicValue), 0))
	case after[1] != after[pc.Workers]:
		out.Verdicts = append(out.Verdicts, mkVerdict("C07", "command-file-differs", site,
			fmt.Sprintf("file after the command: 1cpu=%q kcpu=%q", shortText(after[1], 300), shortText(after[pc.Workers], 300)), 0))
	case a.ExitCode != b.ExitCode || a.Stdout != b.Stdout:
		out.Verdicts = append(out.Verdicts, mkVerdict("C07", "command-differs", site,
			fmt.Sprintf("exit %d vs %d; stdout 1cpu=%q kcpu=%q", a.ExitCode, b.ExitCode, shortText(a.Stdout, 300), shortText(b.Stdout, 300)), 0))
	}
	out.stat("cmd_cases", 1)
	if len(arrivalOrder(b)) >= 2 {
		out.Distinct = append(out.Distinct, fnv(fmt.Sprintf("cmd|%v|%s|%d|%v", pc.Cmd, pc.text(), pc.Workers, schedTrace(b))))
	}
	out.finish()
	return out
}

func (parEngine) shrink(sc *Scenario) []*Scenario {
	var out []*Scenario
	pc := sc.Par
	text := pc.text()
	add := func(f func(c *ParCase)) {
		c := cloneScenario(sc)
		f(c.Par)
		out = append(out, c)
	}
	// simpler schedule
	if len(pc.Tape) > 0 {
		add(func(c *ParCase) { c.Tape = nil })
		add(func(c *ParCase) { c.Tape = c.Tape[:len(c.Tape)/2] })
		for i, v := range pc.Tape {
			if v != 0 && i < 24 {
				i := i
				add(func(c *ParCase) { c.Tape[i] = 0 })
			}
		}
	}
	// fewer workers
	if pc.Workers > 2 {
		add(func(c *ParCase) { c.Workers = 2 })
		add(func(c *ParCase) { c.Workers = c.Workers / 2 })
		add(func(c *ParCase) { c.Workers = c.Workers - 1 })
	}
	// shorter text: drop chunks of lines (ddmin style), then single bytes
	for _, t := range shrinkText(text) {
		t := t
		add(func(c *ParCase) { c.setText(t) })
	}
	return out
}

// shrinkText returns simpler variants of a text: chunks of lines removed (large chunks
// first), then single bytes removed / simplified for short texts.
func shrinkText(text string) []string {
	var out []string
	lines := strings.SplitAfter(text, "\n")
	if len(lines) > 0 && lines[len(lines)-1] == "" {
		lines = lines[:len(lines)-1]
	}
	for size := len(lines) / 2; size >= 1; size /= 2 {
		for start := 0; start+size <= len(lines); start += size {
			out = append(out, strings.Join(lines[:start], "")+strings.Join(lines[start+size:], ""))
		}
		if size == 1 {
			break
		}
	}
	if len(text) <= 160 {
		for i := 0; i < len(text); i++ {
			out = append(out, text[:i]+text[i+1:])
		}
		for i := 0; i < len(text); i++ {
			if text[i] >= 0x80 || (text[i] >= '2' && text[i] <= '9') {
				out = append(out, text[:i]+"1"+text[i+1:])
			}
		}
	}
	return out
}

// splitAtBlankLines cuts a text into at most n parts, only right after blank lines.
func splitAtBlankLines(text string, n int) []string {
	lines := strings.SplitAfter(text, "\n")
	var blocks []string
	cur := ""
	for _, l := range lines {
		cur += l
		if strings.Trim(l, " \t\r\n") == "" && cur != "" {
			blocks = append(blocks, cur)
			cur = ""
		}
	}
	if cur != "" {
		blocks = append(blocks, cur)
	}
	if len(blocks) == 0 {
		return []string{text}
	}
	if n > len(blocks) {
		n = len(blocks)
	}
	parts := make([]string, n)
	for i, b := range blocks {
		parts[i*n/len(blocks)] += b
	}
	return parts
}
