package main

import "fmt"

// Random command lines of the evaluation commands (C06: any accepted or refused invocation on any file must
// end with an exit status, never with a crash or a hang). Built from the flag tables of klog/app/cli; values are
// drawn from what the help texts document, in the spellings the flag parser accepts (upper/lower case of enum
// values, short forms, `--flag value` and `--flag=value`), plus a few values klog must refuse.

type flagSpec struct {
	name, short string
	values      []string // nil = switch
}

var (
	fsFilter = []flagSpec{
		{"tag", "", []string{"x", "#x", "gym", "#Tag=x-1", "x=", "a_b", "読む"}},
		{"date", "", []string{"2024-03-15", "2024/03/14", "2024-02-29", "0000-01-01", "9999-12-31", "2024-13-01"}},
		{"since", "", []string{"2024-03-10", "2024/01/01", "9999-12-31"}},
		{"until", "", []string{"2024-03-20", "0000-01-05", "2024/12/31"}},
		{"after", "", []string{"2024-03-10", "9999-12-31"}},
		{"before", "", []string{"2024-03-20", "0000-01-01"}},
		{"entry-type", "", []string{"range", "open-range", "duration", "duration-positive", "duration-negative", "RANGE", "Open_Range", "open_range", "nothing"}},
		{"period", "", []string{"2024", "2024-03", "2024-W11", "2024-Q1", "9999", "0000", "2024-W53", "2024-Q5", "9999-W52", "0000-01"}},
		{"today", "", nil}, {"yesterday", "", nil}, {"tomorrow", "", nil},
		{"this-week", "", nil}, {"thisweek", "", nil}, {"last-week", "", nil}, {"lastweek", "", nil},
		{"this-month", "", nil}, {"last-month", "", nil}, {"lastmonth", "", nil},
		{"this-quarter", "", nil}, {"last-quarter", "", nil}, {"thisquarter", "", nil},
		{"this-year", "", nil}, {"last-year", "", nil}, {"lastyear", "", nil},
	}
	fsDiff    = []flagSpec{{"diff", "d", nil}}
	fsNow     = []flagSpec{{"now", "n", nil}}
	fsDecimal = []flagSpec{{"decimal", "", nil}}
	fsWarn    = []flagSpec{{"no-warn", "", nil}}
	fsNoStyle = []flagSpec{{"no-style", "", nil}}
	fsSort    = []flagSpec{{"sort", "", []string{"asc", "desc", "ASC", "DESC", "Asc"}}}
)

func cat(fss ...[]flagSpec) []flagSpec {
	var out []flagSpec
	for _, f := range fss {
		out = append(out, f...)
	}
	return out
}

var evalCommands = map[string][]flagSpec{
	"print": cat([]flagSpec{{"with-totals", "", nil}}, fsFilter, fsSort, fsWarn, fsNoStyle),
	"total": cat(fsFilter, fsDiff, fsNow, fsDecimal, fsWarn, fsNoStyle),
	"report": cat([]flagSpec{
		{"aggregate", "a", []string{"DAY", "day", "d", "WEEK", "week", "w", "MONTH", "month", "m", "QUARTER", "quarter", "q", "YEAR", "year", "y", "Week", "decade"}},
		{"fill", "f", nil}, {"chart", "c", nil}, {"chart-res", "", []string{"1", "15", "60", "1000", "0", "-5", "x"}},
	}, fsDiff, fsFilter, fsNow, fsDecimal, fsWarn, fsNoStyle),
	"tags":  cat([]flagSpec{{"values", "v", nil}, {"count", "c", nil}}, fsFilter, fsNow, fsDecimal, fsWarn, fsNoStyle),
	"today": cat(fsDiff, fsNow, fsDecimal, fsWarn, fsNoStyle),
	"json":  cat([]flagSpec{{"pretty", "", nil}}, fsNow, fsFilter, fsSort),
}

var evalCommandNames = []string{"print", "total", "report", "tags", "today", "json", "report", "report"}

// genEvalCommand draws one invocation (without the file argument).
func genEvalCommand(r *Rng) []string {
	name := evalCommandNames[r.Intn(len(evalCommandNames))]
	specs := evalCommands[name]
	argv := []string{name}
	n := r.Pick2([]int{0, 1, 1, 2, 2, 3, 4, 6})
	used := map[string]bool{}
	for i := 0; i < n; i++ {
		f := specs[r.Intn(len(specs))]
		if r.Chance(1, 2) {
			// the command's own flags are few among the many filters: prefer them half of the time
			f = specs[r.Intn(min(len(specs), 4))]
		}
		if used[f.name] && !r.Chance(1, 6) { // repeated flags now and then
			continue
		}
		used[f.name] = true
		flag := "--" + f.name
		if f.short != "" && r.Chance(1, 3) {
			flag = "-" + f.short
		}
		if f.values == nil {
			argv = append(argv, flag)
			continue
		}
		v := f.values[r.Intn(len(f.values))]
		switch {
		case len(v) > 0 && v[0] == '-' || r.Chance(1, 2) && flag[1] == '-':
			argv = append(argv, fmt.Sprintf("%s=%s", flag, v))
		default:
			argv = append(argv, flag, v)
		}
	}
	return argv
}
