// Package verifsim is the simulator runtime that the instrumenter (/verif/instr) links
// into klog through `go build -overlay`. It never exists inside /repo.
//
// With no simulation active every function here delegates to the real thing, so an
// instrumented klog behaves exactly like the original. With a *Sim active, the seams
// record events, take their choices from the run's tape and inject the planned faults.
//
// Nothing in this file reads a real clock or draws from a PRNG.
package verifsim

import (
	"bytes"
	"errors"
	"fmt"
	"io/fs"
	"iter"
	"os"
	"os/signal"
	"runtime"
	"sort"
	"strconv"
	"strings"
	"sync"
	"syscall"
	"time"
)

// ---------------------------------------------------------------------------------------
// Simulation state

// Tape is a finite list of choices. Value 0 is always the simplest choice.
type Tape struct {
	Vals []int
	pos  int
	Used []int // the decisions actually taken (value after reduction), for the event log
}

// Next returns a choice in [0,n). An exhausted tape yields 0.
func (t *Tape) Next(n int) int {
	if n <= 1 {
		return 0
	}
	v := 0
	if t != nil && t.pos < len(t.Vals) {
		v = t.Vals[t.pos]
		t.pos++
	}
	if v < 0 {
		v = -v
	}
	v %= n
	if t != nil {
		t.Used = append(t.Used, v)
	}
	return v
}

// FaultPlan describes what is injected into one simulated process.
type FaultPlan struct {
	// KillAtEvent: the process ends (as by SIGKILL / os.Exit from the signal goroutine)
	// when the seam-event counter reaches this value (1-based). 0 = never.
	KillAtEvent int
	// WriteFault applies to the WriteNth-th FSWriteFile call of the process (1-based, 0 = none).
	WriteNth   int
	WriteFault string // "torn": prefix persisted, then kill; "error_before": error, file untouched;
	// "error_after": file truncated to a prefix, error returned
	WriteCut int // cut position for torn/error_after, reduced modulo len+1
	// ReadFault applies to the ReadNth-th FSReadFile call (1-based, 0 = none): an EIO is returned.
	ReadNth int
	// MetaFailNth: the n-th call among OpenFile(for writing)/CreateTemp/Rename/Remove/Sync/Close/Truncate
	// fails with EIO (1-based, 0 = none). Only hand-written write paths make such calls.
	MetaFailNth int
	// NowStepMs: time goes by between two readings of the clock - every reading moves the clock on by this many
	// milliseconds (0 = the clock stands still while the process computes, as it practically does on a fast machine).
	NowStepMs int
}

// Goroutine is one controlled goroutine of the simulated process.
type Goroutine struct {
	ID     int
	Kind   string // where it is parked
	wake   chan struct{}
	parked bool
}

// Event is one entry of the per-goroutine event log.
type Event struct {
	G    int
	What string
	Seq  int // global order of seam events (not part of the canonical log: goroutines woken at the same instant race for it)
}

// Sim is the state of one simulated klog process.
type Sim struct {
	mu sync.Mutex

	// clock
	Base        time.Time // simulated wall clock at bubble start
	BubbleStart time.Time // time.Now() inside the bubble when the process started
	Skew        time.Duration
	Zone        *time.Location
	// BeforeFirstWrite, when set, runs once: right before the first file-system call by which the process starts
	// to write (WriteFile, OpenFile for writing, Create, CreateTemp, Rename) - the window between a command's
	// read of its target and its write, in which somebody else may have saved the file.
	BeforeFirstWrite func()

	// choices
	Tape     *Tape // scheduler picks
	MapTape  *Tape // map iteration orders
	MapOrder bool  // permute map iteration orders (else canonical sorted order)

	// faults
	Plan FaultPlan

	// paths under Root are logged as $ROOT/...
	Root string

	// goroutines
	nextSpawn int
	byGoid    map[uint64]*Goroutine
	parkedSet map[int]*Goroutine
	live      int

	// process state
	Exited      bool
	ExitCode    int
	Crashed     bool
	PanicValue  string
	PanicStack  string
	Killed      bool
	down        bool // set by Shutdown: cleanup after the process has ended
	sigChans    []chan<- os.Signal
	Stdout      bytes.Buffer
	events      map[int][]Event
	EventCount  int // seam events of the whole process (used by KillAtEvent)
	writeCalls  int
	readCalls   int
	metaCalls   int
	tempNames   map[string]string
	tickers     []*time.Ticker
	timers      []*time.Timer
	Fired       map[string]int // fault kinds that actually fired
	Uncontrol   int            // seams hit from goroutines the simulator does not know
	MapRanges   int
	MapPermuted int
	NowCalls    int
	Yields      int
}

var cur *Sim
var curMu sync.RWMutex

// reg maps every registered goroutine to the simulation it belongs to, so that a goroutine
// that outlives its simulated process (blocked, then woken later) still finds its own, dead,
// simulation at its next seam and unwinds instead of touching a later simulation or the
// real world.
var reg = map[uint64]*regEntry{}

type regEntry struct {
	s *Sim
	g *Goroutine
}

func register(s *Sim, g *Goroutine) {
	id := goid()
	curMu.Lock()
	reg[id] = &regEntry{s, g}
	curMu.Unlock()
}

func unregister() {
	id := goid()
	curMu.Lock()
	delete(reg, id)
	curMu.Unlock()
}

// lookup returns the simulation and goroutine record of the calling goroutine; for an
// unknown goroutine the active simulation (possibly nil) and nil.
func lookup() (*Sim, *Goroutine) {
	id := goid()
	curMu.RLock()
	e := reg[id]
	s := cur
	curMu.RUnlock()
	if e != nil {
		return e.s, e.g
	}
	return s, nil
}

// New creates the state for one simulated process.
func New() *Sim {
	return &Sim{
		byGoid:    map[uint64]*Goroutine{},
		parkedSet: map[int]*Goroutine{},
		events:    map[int][]Event{},
		Fired:     map[string]int{},
		Zone:      time.UTC,
	}
}

// Activate makes s the simulation that all seams talk to.
func Activate(s *Sim) {
	curMu.Lock()
	cur = s
	curMu.Unlock()
}

// Deactivate returns the seams to pass-through mode.
func Deactivate() {
	curMu.Lock()
	cur = nil
	curMu.Unlock()
}

func active() *Sim {
	s, _ := lookup()
	return s
}

// exitSentinel unwinds a goroutine of a simulated process that has ended.
type exitSentinel struct{}

// IsExitSentinel tells whether a recovered panic value is the simulator's own unwinding.
func IsExitSentinel(v any) bool {
	_, ok := v.(exitSentinel)
	return ok
}

func goid() uint64 {
	var buf [64]byte
	n := runtime.Stack(buf[:], false)
	// "goroutine 123 [running]:..."
	s := buf[:n]
	s = s[len("goroutine "):]
	i := bytes.IndexByte(s, ' ')
	id, _ := strconv.ParseUint(string(s[:i]), 10, 64)
	return id
}

// RegisterMain registers the calling goroutine as goroutine 0 (the simulated main).
func (s *Sim) RegisterMain() {
	s.mu.Lock()
	g := &Goroutine{ID: 0, wake: make(chan struct{})}
	s.byGoid[goid()] = g
	s.live++
	s.mu.Unlock()
	register(s, g)
}

// MainDone marks the end of goroutine 0.
func (s *Sim) MainDone() {
	s.mu.Lock()
	delete(s.byGoid, goid())
	s.live--
	s.mu.Unlock()
	unregister()
}

func (s *Sim) me() *Goroutine {
	id := goid()
	s.mu.Lock()
	g := s.byGoid[id]
	s.mu.Unlock()
	return g
}

func (s *Sim) logEvent(g *Goroutine, what string) {
	id := -1
	if g != nil {
		id = g.ID
	}
	s.mu.Lock()
	s.events[id] = append(s.events[id], Event{G: id, What: what, Seq: s.EventCount})
	s.mu.Unlock()
}

// Events returns the event log in a canonical order: per goroutine ordinal, in program order.
func (s *Sim) Events() []Event {
	s.mu.Lock()
	defer s.mu.Unlock()
	ids := make([]int, 0, len(s.events))
	for id := range s.events {
		ids = append(ids, id)
	}
	sort.Ints(ids)
	var out []Event
	for _, id := range ids {
		out = append(out, s.events[id]...)
	}
	return out
}

// dead reports whether the simulated process has ended (exit, crash or kill).
func (s *Sim) dead() bool {
	s.mu.Lock()
	d := s.Exited || s.Crashed || s.Killed || s.down
	s.mu.Unlock()
	return d
}

// Dead is dead() for the controller.
func (s *Sim) Dead() bool { return s.dead() }

// checkDead unwinds the calling goroutine if the process has ended.
func (s *Sim) checkDead() {
	if s.dead() {
		panic(exitSentinel{})
	}
}

// seam is called on entry of every I/O, clock and output seam. It counts the event,
// injects a planned kill and unwinds goroutines of a process that has ended.
func (s *Sim) seam(what string) *Goroutine {
	g := s.me()
	if g == nil {
		s.mu.Lock()
		s.Uncontrol++
		s.mu.Unlock()
	}
	s.checkDead()
	s.mu.Lock()
	s.EventCount++
	n := s.EventCount
	kill := s.Plan.KillAtEvent != 0 && n == s.Plan.KillAtEvent
	if kill {
		s.Killed = true
		s.Fired["kill"]++
	}
	s.mu.Unlock()
	if kill {
		s.logEvent(g, "KILLED before "+what)
		panic(exitSentinel{})
	}
	return g
}

// ---------------------------------------------------------------------------------------
// R1: map iteration order

// MapIter iterates over m in an order decided by the simulation: canonical (sorted keys)
// or a permutation taken from the map tape. Keys deleted during the iteration are skipped,
// keys added during the iteration are not visited (both allowed by the language spec).
func MapIter[M ~map[K]V, K comparable, V any](m M) iter.Seq2[K, V] {
	return func(yield func(K, V) bool) {
		s := active()
		if s == nil {
			for k, v := range m {
				if !yield(k, v) {
					return
				}
			}
			return
		}
		keys := make([]K, 0, len(m))
		for k := range m {
			keys = append(keys, k)
		}
		strs := make(map[K]string, len(keys))
		for _, k := range keys {
			strs[k] = fmt.Sprintf("%T:%v", k, k)
		}
		sort.SliceStable(keys, func(i, j int) bool { return strs[keys[i]] < strs[keys[j]] })
		s.mu.Lock()
		s.MapRanges++
		permute := s.MapOrder && len(keys) > 1
		if permute {
			s.MapPermuted++
			for i := len(keys) - 1; i > 0; i-- {
				j := s.MapTape.Next(i + 1)
				// tape value 0 keeps element i in place
				j = i - j
				keys[i], keys[j] = keys[j], keys[i]
			}
		}
		s.mu.Unlock()
		for _, k := range keys {
			v, ok := m[k]
			if !ok {
				continue
			}
			if !yield(k, v) {
				return
			}
		}
	}
}

// ---------------------------------------------------------------------------------------
// R2/R3: goroutines and schedule points

// GoSpawn is called by the parent right before a `go` statement and returns the
// deterministic ordinal of the child.
func GoSpawn() int {
	s := active()
	if s == nil {
		return 0
	}
	s.mu.Lock()
	s.nextSpawn++
	id := s.nextSpawn
	s.live++
	s.mu.Unlock()
	return id
}

// GoStart is the first statement of an instrumented goroutine body.
func GoStart(id int) {
	s := active()
	if s == nil {
		return
	}
	g := &Goroutine{ID: id, wake: make(chan struct{})}
	s.mu.Lock()
	s.byGoid[goid()] = g
	s.mu.Unlock()
	register(s, g)
	s.park(g, "start")
}

// GoEnd is deferred first in an instrumented goroutine body: it records a panic of the
// goroutine as a crash of the simulated process instead of killing the harness.
func GoEnd(id int) {
	r := recover()
	s := active()
	if s == nil {
		if r != nil {
			panic(r)
		}
		return
	}
	if r != nil && !IsExitSentinel(r) {
		s.RecordPanic(r, stackTrace())
	}
	s.mu.Lock()
	delete(s.byGoid, goid())
	s.live--
	s.mu.Unlock()
	unregister()
}

func stackTrace() string {
	buf := make([]byte, 16<<10)
	n := runtime.Stack(buf, false)
	return string(buf[:n])
}

// RecordPanic marks the simulated process as crashed.
func (s *Sim) RecordPanic(r any, stack string) {
	s.mu.Lock()
	if !s.Crashed {
		s.Crashed = true
		s.PanicValue = fmt.Sprint(r)
		s.PanicStack = stack
	}
	s.mu.Unlock()
}

func (s *Sim) park(g *Goroutine, kind string) {
	s.checkDead()
	s.mu.Lock()
	s.Yields++
	g.Kind = kind
	g.parked = true
	s.parkedSet[g.ID] = g
	s.mu.Unlock()
	<-g.wake
	s.checkDead()
}

// Yield is a schedule point: the goroutine parks until the controller picks it.
func Yield(kind string) {
	s := active()
	if s == nil {
		return
	}
	g := s.me()
	if g == nil {
		s.mu.Lock()
		s.Uncontrol++
		s.mu.Unlock()
		return
	}
	s.park(g, kind)
}

type tryLocker interface {
	TryLock() bool
}

type tryRLocker interface {
	TryRLock() bool
}

// Lock replaces mu.Lock(): a schedule point followed by TryLock, repeated until it succeeds,
// so that a goroutine never blocks on a mutex while the controller waits for quiescence.
func Lock(mu interface {
	tryLocker
	Lock()
}) {
	s := active()
	if s == nil || s.me() == nil {
		mu.Lock()
		return
	}
	for {
		Yield("lock")
		if mu.TryLock() {
			return
		}
	}
}

// RLock replaces mu.RLock().
func RLock(mu interface {
	tryRLocker
	RLock()
}) {
	s := active()
	if s == nil || s.me() == nil {
		mu.RLock()
		return
	}
	for {
		Yield("rlock")
		if mu.TryRLock() {
			return
		}
	}
}

// Parked returns the currently parked goroutines sorted by ordinal.
func (s *Sim) Parked() []*Goroutine {
	s.mu.Lock()
	defer s.mu.Unlock()
	out := make([]*Goroutine, 0, len(s.parkedSet))
	for _, g := range s.parkedSet {
		out = append(out, g)
	}
	sort.Slice(out, func(i, j int) bool { return out[i].ID < out[j].ID })
	return out
}

// Release lets one parked goroutine run.
func (s *Sim) Release(g *Goroutine) {
	s.mu.Lock()
	delete(s.parkedSet, g.ID)
	g.parked = false
	s.mu.Unlock()
	g.wake <- struct{}{}
}

// Live returns the number of goroutines of the simulated process that have not ended.
func (s *Sim) Live() int {
	s.mu.Lock()
	defer s.mu.Unlock()
	return s.live
}

// Shutdown ends the simulated process from the controller: every parked goroutine and
// every goroutine waiting for a signal is released and unwinds.
func (s *Sim) Shutdown() {
	s.mu.Lock()
	s.down = true
	chans := s.sigChans
	s.sigChans = nil
	tickers, timers := s.tickers, s.timers
	s.tickers, s.timers = nil, nil
	s.mu.Unlock()
	// a dead process has no timers: stop them, otherwise the bubble never becomes idle
	for _, t := range tickers {
		t.Stop()
	}
	for _, t := range timers {
		t.Stop()
	}
	for _, c := range chans {
		select {
		case c <- os.Interrupt:
		default:
		}
	}
	for _, g := range s.Parked() {
		s.Release(g)
	}
}

// ---------------------------------------------------------------------------------------
// R4: clock

// Now replaces time.Now.
func Now() time.Time {
	s := active()
	if s == nil {
		return time.Now()
	}
	g := s.seam("now")
	t := s.now()
	s.mu.Lock()
	s.NowCalls++
	if s.Plan.NowStepMs != 0 {
		s.Skew += time.Duration(s.Plan.NowStepMs) * time.Millisecond
		s.Fired["clock_moves_between_readings"]++
	}
	s.mu.Unlock()
	s.logEvent(g, "now "+t.Format("2006-01-02T15:04:05Z07:00"))
	return t
}

func (s *Sim) now() time.Time {
	s.mu.Lock()
	defer s.mu.Unlock()
	return s.Base.Add(time.Now().Sub(s.BubbleStart)).Add(s.Skew).In(s.Zone)
}

// SimNow is the controller's view of the simulated clock (no event, no fault).
func (s *Sim) SimNow() time.Time { return s.now() }

// Jump changes the skew of the simulated clock (suspend/resume, NTP step).
func (s *Sim) Jump(d time.Duration) {
	s.mu.Lock()
	s.Skew += d
	if d >= 0 {
		s.Fired["clock_jump_fwd"]++
	} else {
		s.Fired["clock_jump_back"]++
	}
	s.mu.Unlock()
}

// ---------------------------------------------------------------------------------------
// R5: signals and exit

// SignalNotify replaces signal.Notify.
func SignalNotify(c chan<- os.Signal, sig ...os.Signal) {
	s := active()
	if s == nil {
		signal.Notify(c, sig...)
		return
	}
	s.mu.Lock()
	s.sigChans = append(s.sigChans, c)
	s.mu.Unlock()
}

// Interrupt delivers a simulated SIGINT to every registered channel. It reports whether
// anybody was listening; without a listener the default action (termination) applies.
func (s *Sim) Interrupt() bool {
	s.mu.Lock()
	chans := append([]chan<- os.Signal(nil), s.sigChans...)
	s.Fired["sigint"]++
	s.mu.Unlock()
	if len(chans) == 0 {
		s.mu.Lock()
		s.Killed = true
		s.mu.Unlock()
		return false
	}
	for _, c := range chans {
		select {
		case c <- os.Interrupt:
		default:
		}
	}
	return true
}

// Exit replaces os.Exit: the simulated process ends; the calling goroutine unwinds now,
// every other goroutine at its next seam or schedule point.
func Exit(code int) {
	s := active()
	if s == nil {
		os.Exit(code)
	}
	s.mu.Lock()
	already := s.Exited || s.Killed || s.Crashed || s.down
	if !already {
		s.Exited = true
		s.ExitCode = code
	}
	s.mu.Unlock()
	if !already {
		s.logEvent(s.me(), "exit "+strconv.Itoa(code))
	}
	panic(exitSentinel{})
}

// ---------------------------------------------------------------------------------------
// R6: stdout

func (s *Sim) out(str string) {
	s.seam("print")
	s.mu.Lock()
	s.Stdout.WriteString(str)
	s.mu.Unlock()
}

// Print replaces fmt.Print.
func Print(a ...any) (int, error) {
	s := active()
	if s == nil {
		return fmt.Print(a...)
	}
	str := fmt.Sprint(a...)
	s.out(str)
	return len(str), nil
}

// Println replaces fmt.Println.
func Println(a ...any) (int, error) {
	s := active()
	if s == nil {
		return fmt.Println(a...)
	}
	str := fmt.Sprintln(a...)
	s.out(str)
	return len(str), nil
}

// Printf replaces fmt.Printf.
func Printf(format string, a ...any) (int, error) {
	s := active()
	if s == nil {
		return fmt.Printf(format, a...)
	}
	str := fmt.Sprintf(format, a...)
	s.out(str)
	return len(str), nil
}

// ---------------------------------------------------------------------------------------
// R7: file system (pass-through to the real one, plus events and faults)

func (s *Sim) rel(p string) string {
	s.mu.Lock()
	if t, ok := s.tempNames[p]; ok {
		p = t
	}
	s.mu.Unlock()
	if s.Root != "" && strings.HasPrefix(p, s.Root) {
		return "$ROOT" + p[len(s.Root):]
	}
	return p
}

// norm replaces the scratch root inside file contents (bookmarks.json holds absolute paths),
// so that the event log does not depend on the name of the scratch directory.
func (s *Sim) norm(b []byte) []byte {
	if s.Root == "" {
		return b
	}
	root := []byte(s.Root)
	if bytes.Contains(b, root) {
		b = bytes.ReplaceAll(b, root, []byte("$ROOT"))
	}
	// a truncated occurrence at the very end (what a torn write leaves)
	for n := len(root) - 1; n >= 8; n-- {
		if bytes.HasSuffix(b, root[:n]) {
			return append(append([]byte{}, b[:len(b)-n]...), []byte("$ROOT[:"+strconv.Itoa(n)+"]")...)
		}
	}
	return b
}

func sum(b []byte) string {
	// FNV-1a 64: cheap, only for the event log
	h := uint64(14695981039346656037)
	for _, c := range b {
		h ^= uint64(c)
		h *= 1099511628211
	}
	return strconv.FormatUint(h, 16)
}

func errClass(err error) string {
	switch {
	case err == nil:
		return "ok"
	case errors.Is(err, fs.ErrNotExist):
		return "ENOENT"
	case errors.Is(err, fs.ErrExist):
		return "EEXIST"
	case errors.Is(err, fs.ErrPermission):
		return "EPERM"
	case errors.Is(err, syscall.EISDIR):
		return "EISDIR"
	case errors.Is(err, syscall.ENOTDIR):
		return "ENOTDIR"
	case errors.Is(err, syscall.EIO):
		return "EIO"
	case errors.Is(err, syscall.ENOSPC):
		return "ENOSPC"
	}
	return "ERR"
}

// FSReadFile replaces os.ReadFile.
func FSReadFile(name string) ([]byte, error) {
	s := active()
	if s == nil {
		return os.ReadFile(name)
	}
	g := s.seam("read " + s.rel(name))
	s.mu.Lock()
	s.readCalls++
	inject := s.Plan.ReadNth != 0 && s.readCalls == s.Plan.ReadNth
	if inject {
		s.Fired["read_error"]++
	}
	s.mu.Unlock()
	if inject {
		s.logEvent(g, "read "+s.rel(name)+" -> injected EIO")
		return nil, &fs.PathError{Op: "read", Path: name, Err: syscall.EIO}
	}
	b, err := os.ReadFile(name)
	nb := s.norm(b)
	s.logEvent(g, "read "+s.rel(name)+" -> "+errClass(err)+" "+strconv.Itoa(len(nb))+" "+sum(nb))
	return b, err
}

// FSWriteFile replaces os.WriteFile.
func FSWriteFile(name string, data []byte, perm os.FileMode) error {
	s := active()
	if s == nil {
		return os.WriteFile(name, data, perm)
	}
	g := s.seam("write " + s.rel(name))
	s.firstWriteHook()
	s.mu.Lock()
	s.writeCalls++
	fault := ""
	if s.Plan.WriteNth != 0 && s.writeCalls == s.Plan.WriteNth {
		fault = s.Plan.WriteFault
	}
	cut := 0
	if fault != "" {
		cut = s.Plan.WriteCut
		if cut < 0 {
			cut = -cut
		}
		cut %= len(data) + 1
	}
	s.mu.Unlock()
	switch fault {
	case "torn":
		err := os.WriteFile(name, data[:cut], perm)
		s.mu.Lock()
		s.Killed = true
		s.Fired["torn_write"]++
		s.mu.Unlock()
		s.logEvent(g, "write "+s.rel(name)+" -> TORN at "+strconv.Itoa(cut)+" "+errClass(err))
		panic(exitSentinel{})
	case "error_before":
		s.mu.Lock()
		s.Fired["write_error"]++
		s.mu.Unlock()
		s.logEvent(g, "write "+s.rel(name)+" -> injected ENOSPC (nothing written)")
		return &fs.PathError{Op: "write", Path: name, Err: syscall.ENOSPC}
	case "error_after":
		_ = os.WriteFile(name, data[:cut], perm)
		s.mu.Lock()
		s.Fired["write_error"]++
		s.mu.Unlock()
		s.logEvent(g, "write "+s.rel(name)+" -> injected ENOSPC after "+strconv.Itoa(cut))
		return &fs.PathError{Op: "write", Path: name, Err: syscall.ENOSPC}
	}
	err := os.WriteFile(name, data, perm)
	nd := s.norm(data)
	s.logEvent(g, "write "+s.rel(name)+" -> "+errClass(err)+" "+strconv.Itoa(len(nd))+" "+sum(nd))
	return err
}

// FSStat replaces os.Stat.
func FSStat(name string) (os.FileInfo, error) {
	s := active()
	if s == nil {
		return os.Stat(name)
	}
	g := s.seam("stat " + s.rel(name))
	fi, err := os.Stat(name)
	s.logEvent(g, "stat "+s.rel(name)+" -> "+errClass(err))
	return fi, err
}

// FSCreate replaces os.Create.
func FSCreate(name string) (*os.File, error) {
	s := active()
	if s == nil {
		return os.Create(name)
	}
	g := s.seam("create " + s.rel(name))
	s.firstWriteHook()
	f, err := os.Create(name)
	s.logEvent(g, "create "+s.rel(name)+" -> "+errClass(err))
	return f, err
}

// FSMkdirAll replaces os.MkdirAll.
func FSMkdirAll(path string, perm os.FileMode) error {
	s := active()
	if s == nil {
		return os.MkdirAll(path, perm)
	}
	g := s.seam("mkdirall " + s.rel(path))
	if s.metaFail() {
		// (the folder cannot be created: read-only parent, quota)
		s.logEvent(g, "mkdirall "+s.rel(path)+" -> injected EIO")
		return eio("mkdir", path)
	}
	err := os.MkdirAll(path, perm)
	s.logEvent(g, "mkdirall "+s.rel(path)+" -> "+errClass(err))
	return err
}

// WriteCalls returns how many FSWriteFile calls the process made.
func (s *Sim) WriteCalls() int {
	s.mu.Lock()
	defer s.mu.Unlock()
	return s.writeCalls
}

// ReadCalls returns how many FSReadFile calls the process made.
func (s *Sim) ReadCalls() int {
	s.mu.Lock()
	defer s.mu.Unlock()
	return s.readCalls
}

// Snapshot returns the counters of the process under the lock.
func (s *Sim) Snapshot() (events, yields, mapRanges, mapPermuted, uncontrolled int) {
	s.mu.Lock()
	defer s.mu.Unlock()
	return s.EventCount, s.Yields, s.MapRanges, s.MapPermuted, s.Uncontrol
}

// State returns the end state of the process under the lock.
func (s *Sim) State() (exited bool, code int, crashed bool, panicValue, panicStack string, killed bool) {
	s.mu.Lock()
	defer s.mu.Unlock()
	return s.Exited, s.ExitCode, s.Crashed, s.PanicValue, s.PanicStack, s.Killed
}

// Output returns what the process printed.
func (s *Sim) Output() string {
	s.mu.Lock()
	defer s.mu.Unlock()
	return s.Stdout.String()
}

// FiredCounts returns a copy of the fault counters.
func (s *Sim) FiredCounts() map[string]int {
	s.mu.Lock()
	defer s.mu.Unlock()
	out := map[string]int{}
	for k, v := range s.Fired {
		out[k] = v
	}
	return out
}

// ---------------------------------------------------------------------------------------
// R7 continued: hand-written write paths (os.OpenFile / CreateTemp / Rename / Remove and the
// writing methods of *os.File). Pass-through plus events, kill points and injected errors.

// metaFail decides whether this meta call is the one the plan makes fail.
func (s *Sim) metaFail() bool {
	s.mu.Lock()
	defer s.mu.Unlock()
	s.metaCalls++
	if s.Plan.MetaFailNth != 0 && s.metaCalls == s.Plan.MetaFailNth {
		s.Fired["meta_error"]++
		return true
	}
	return false
}

func eio(op, path string) error { return &fs.PathError{Op: op, Path: path, Err: syscall.EIO} }

// FSOpenFile replaces os.OpenFile.
func FSOpenFile(name string, flag int, perm os.FileMode) (*os.File, error) {
	s := active()
	if s == nil {
		return os.OpenFile(name, flag, perm)
	}
	g := s.seam("openfile " + s.rel(name))
	writing := flag&(os.O_WRONLY|os.O_RDWR|os.O_CREATE|os.O_TRUNC|os.O_APPEND) != 0
	if writing {
		s.firstWriteHook()
	}
	if writing && s.metaFail() {
		s.logEvent(g, "openfile "+s.rel(name)+" -> injected EIO")
		return nil, eio("open", name)
	}
	f, err := os.OpenFile(name, flag, perm)
	s.logEvent(g, "openfile "+s.rel(name)+" flag="+strconv.Itoa(flag)+" -> "+errClass(err))
	return f, err
}

// FSOpen replaces os.Open.
func FSOpen(name string) (*os.File, error) {
	s := active()
	if s == nil {
		return os.Open(name)
	}
	g := s.seam("open " + s.rel(name))
	f, err := os.Open(name)
	s.logEvent(g, "open "+s.rel(name)+" -> "+errClass(err))
	return f, err
}

// FSCreateTemp replaces os.CreateTemp. The random name is logged as $TEMPn.
func FSCreateTemp(dir, pattern string) (*os.File, error) {
	s := active()
	if s == nil {
		return os.CreateTemp(dir, pattern)
	}
	g := s.seam("createtemp " + s.rel(dir) + " " + pattern)
	s.firstWriteHook()
	if s.metaFail() {
		s.logEvent(g, "createtemp "+s.rel(dir)+" -> injected EIO")
		return nil, eio("open", dir)
	}
	f, err := os.CreateTemp(dir, pattern)
	if err == nil {
		s.mu.Lock()
		if s.tempNames == nil {
			s.tempNames = map[string]string{}
		}
		s.tempNames[f.Name()] = dirOf(f.Name()) + "/$TEMP" + strconv.Itoa(len(s.tempNames)+1)
		s.mu.Unlock()
	}
	s.logEvent(g, "createtemp "+s.rel(dir)+" "+pattern+" -> "+errClass(err))
	return f, err
}

func dirOf(p string) string {
	if i := strings.LastIndexByte(p, '/'); i >= 0 {
		return p[:i]
	}
	return "."
}

// FSRename replaces os.Rename.
func FSRename(oldpath, newpath string) error {
	s := active()
	if s == nil {
		return os.Rename(oldpath, newpath)
	}
	g := s.seam("rename " + s.rel(oldpath) + " " + s.rel(newpath))
	s.firstWriteHook()
	if s.metaFail() {
		s.logEvent(g, "rename "+s.rel(oldpath)+" "+s.rel(newpath)+" -> injected EIO")
		return eio("rename", oldpath)
	}
	err := os.Rename(oldpath, newpath)
	s.logEvent(g, "rename "+s.rel(oldpath)+" "+s.rel(newpath)+" -> "+errClass(err))
	return err
}

// FSRemove replaces os.Remove.
func FSRemove(name string) error {
	s := active()
	if s == nil {
		return os.Remove(name)
	}
	g := s.seam("remove " + s.rel(name))
	if s.metaFail() {
		s.logEvent(g, "remove "+s.rel(name)+" -> injected EIO")
		return eio("remove", name)
	}
	err := os.Remove(name)
	s.logEvent(g, "remove "+s.rel(name)+" -> "+errClass(err))
	return err
}

// fileWrite is the data-write seam of *os.File: it shares the write plan with FSWriteFile.
func fileWrite(f *os.File, data []byte) (int, error) {
	s := active()
	if s == nil || f == os.Stdout || f == os.Stderr {
		// the standard streams are not part of the simulated disk: no event, no fault
		return f.Write(data)
	}
	name := ""
	if f != nil {
		name = f.Name()
	}
	g := s.seam("fwrite " + s.rel(name))
	s.mu.Lock()
	s.writeCalls++
	fault := ""
	if s.Plan.WriteNth != 0 && s.writeCalls == s.Plan.WriteNth {
		fault = s.Plan.WriteFault
	}
	cut := 0
	if fault != "" {
		cut = s.Plan.WriteCut
		if cut < 0 {
			cut = -cut
		}
		cut %= len(data) + 1
	}
	s.mu.Unlock()
	switch fault {
	case "torn":
		_, err := f.Write(data[:cut])
		s.mu.Lock()
		s.Killed = true
		s.Fired["torn_write"]++
		s.mu.Unlock()
		s.logEvent(g, "fwrite "+s.rel(name)+" -> TORN at "+strconv.Itoa(cut)+" "+errClass(err))
		panic(exitSentinel{})
	case "error_before":
		s.mu.Lock()
		s.Fired["write_error"]++
		s.mu.Unlock()
		s.logEvent(g, "fwrite "+s.rel(name)+" -> injected ENOSPC (nothing written)")
		return 0, &fs.PathError{Op: "write", Path: name, Err: syscall.ENOSPC}
	case "error_after":
		n, _ := f.Write(data[:cut])
		s.mu.Lock()
		s.Fired["write_error"]++
		s.mu.Unlock()
		s.logEvent(g, "fwrite "+s.rel(name)+" -> injected ENOSPC after "+strconv.Itoa(cut))
		return n, &fs.PathError{Op: "write", Path: name, Err: syscall.ENOSPC}
	}
	n, err := f.Write(data)
	nd := s.norm(data)
	s.logEvent(g, "fwrite "+s.rel(name)+" -> "+errClass(err)+" "+strconv.Itoa(len(nd))+" "+sum(nd))
	return n, err
}

// FileWrite replaces (*os.File).Write.
func FileWrite(f *os.File, b []byte) (int, error) { return fileWrite(f, b) }

// FileWriteString replaces (*os.File).WriteString.
func FileWriteString(f *os.File, str string) (int, error) { return fileWrite(f, []byte(str)) }

func fileMeta(f *os.File, what string, do func() error) error {
	s := active()
	if s == nil || f == os.Stdout || f == os.Stderr || f == os.Stdin {
		return do()
	}
	name := ""
	if f != nil {
		name = f.Name()
	}
	g := s.seam(what + " " + s.rel(name))
	if s.metaFail() {
		if what == "close" {
			_ = do() // the descriptor is released even when close reports an error
		}
		s.logEvent(g, what+" "+s.rel(name)+" -> injected EIO")
		return eio(what, name)
	}
	err := do()
	s.logEvent(g, what+" "+s.rel(name)+" -> "+errClass(err))
	return err
}

func (s *Sim) firstWriteHook() {
	s.mu.Lock()
	h := s.BeforeFirstWrite
	s.BeforeFirstWrite = nil
	if h != nil {
		s.Fired["edit_between_read_and_write"]++
	}
	s.mu.Unlock()
	if h != nil {
		h()
	}
}

// FileShim is what a *os.File becomes when klog hands it to code that writes through an interface (R7b).
type FileShim struct{ F *os.File }

// FileAsWriter wraps a file that is passed on as an io.Writer (bufio.NewWriter(f), io.WriteString(f, ...), ...).
func FileAsWriter(f *os.File) *FileShim { return &FileShim{F: f} }

func (w *FileShim) Write(b []byte) (int, error)       { return fileWrite(w.F, b) }
func (w *FileShim) WriteString(s string) (int, error) { return fileWrite(w.F, []byte(s)) }
func (w *FileShim) Read(b []byte) (int, error)        { return w.F.Read(b) }
func (w *FileShim) Close() error                      { return FileClose(w.F) }
func (w *FileShim) Sync() error                       { return FileSync(w.F) }

// FileSync replaces (*os.File).Sync.
func FileSync(f *os.File) error { return fileMeta(f, "sync", f.Sync) }

// FileClose replaces (*os.File).Close.
func FileClose(f *os.File) error { return fileMeta(f, "close", f.Close) }

// FileTruncate replaces (*os.File).Truncate.
func FileTruncate(f *os.File, size int64) error {
	return fileMeta(f, "truncate", func() error { return f.Truncate(size) })
}

// ---------------------------------------------------------------------------------------
// R8: timers. They run on the bubble's fake clock as they are; the simulation only keeps track
// of them so that none outlives the simulated process (a goroutine that is unwound before it
// could register its `defer ticker.Stop()` would otherwise keep the bubble busy for ever).

// NewTicker replaces time.NewTicker.
func NewTicker(d time.Duration) *time.Ticker {
	t := time.NewTicker(d)
	if s := active(); s != nil {
		s.mu.Lock()
		if s.down || s.Killed || s.Exited || s.Crashed {
			s.mu.Unlock()
			t.Stop()
			return t
		}
		s.tickers = append(s.tickers, t)
		s.mu.Unlock()
	}
	return t
}

// NewTimer replaces time.NewTimer.
func NewTimer(d time.Duration) *time.Timer {
	t := time.NewTimer(d)
	if s := active(); s != nil {
		s.mu.Lock()
		s.timers = append(s.timers, t)
		s.mu.Unlock()
	}
	return t
}

// AfterFunc replaces time.AfterFunc.
func AfterFunc(d time.Duration, f func()) *time.Timer {
	t := time.AfterFunc(d, f)
	if s := active(); s != nil {
		s.mu.Lock()
		s.timers = append(s.timers, t)
		s.mu.Unlock()
	}
	return t
}

// After replaces time.After.
func After(d time.Duration) <-chan time.Time { return NewTimer(d).C }

// Tick replaces time.Tick.
func Tick(d time.Duration) <-chan time.Time { return NewTicker(d).C }
